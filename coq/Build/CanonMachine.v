(* Build/CanonMachine.v — the automaton the generator builds for a validated file (whether or
   not a table can then be made from it) is the textbook LALR(1) automaton: every state is the
   merge of the canonical LR(1) item sets that have its core.

   The canonical collection, by viable prefix: I(g) = { it | nvalid1 g it }, with
   I([]) = closure({[S' -> . S, $]}) and I(g x) = closure(goto(I(g), x)); closure is the
   generator's own closure rule `implied_by` (lookaheads FIRST(beta a) from the FIRST map, which
   is exactly FIRST: Build/FirstLeast.v).  `npath g k`: reading g along the recorded transitions
   from the start state ends in state k.

   canon_merge      : the items of state k are exactly the union of the I(g), g leading to k;
   canon_same_core  : each such I(g) has exactly the core of state k.  *)
From Coq Require Import List Arith Lia Bool Sorting.Sorted Permutation.
From Kiki Require Import Base.Ord Base.OrdProofs Base.Chars Data DataProofs Oset.Model Oset.Proofs Ast.ValidateProofs
  Build.Machine Build.ClosureProofs Build.LoopProofs Build.LoopInv Build.NormProofs Build.MachineSpec Build.DerProofs.
Import ListNotations.
Open Scope nat_scope.

Section CanonMachine.
  Variable cx : context.
  Variable m : machine.
  Notation next_sym := (next_sym cx).
  Notation implied_by := (implied_by cx).
  Notation reach := (reach cx).
  Notation states := (m_states m).
  Notation trans := (m_transitions m).

  Inductive nvalid1 : list symbol -> item -> Prop :=
  | nv_start : nvalid1 [] start_item
  | nv_closure g jt it : nvalid1 g jt -> implied_by jt it -> nvalid1 g it
  | nv_goto g it x : nvalid1 g it -> next_sym it = Some x -> nvalid1 (g ++ [x]) (adv it).

  Inductive npath : list symbol -> nat -> Prop :=
  | np_nil : npath [] (m_start m)
  | np_snoc g t : npath g (tr_from t) -> In t trans -> npath (g ++ [tr_symbol t]) (tr_to t).

  Lemma npath_inv_nil k : npath [] k -> k = m_start m.
  Proof. intros H. inversion H as [|g t _ _ Hg]; [reflexivity|]. exfalso. destruct g; discriminate. Qed.

  Lemma npath_inv_snoc g x k : npath (g ++ [x]) k ->
    exists t, In t trans /\ npath g (tr_from t) /\ tr_symbol t = x /\ tr_to t = k.
  Proof.
    intros H. inversion H as [Hg|g0 t Hp Hin Hg Hk]; [exfalso; destruct g; discriminate|].
    apply app_inj_tail in Hg as (-> & Hx). exists t. auto.
  Qed.

  Hypothesis HM : MInv cx m.
  Hypothesis HD : forall k st it, nth_error states k = Some st -> In it st -> Der cx trans (m_start m) k it.

  Lemma der_nvalid1 k it : Der cx trans (m_start m) k it -> exists g, npath g k /\ nvalid1 g it.
  Proof.
    induction 1 as [|j jt it _ (g & Hp & Hv) Himp|t it Ht _ (g & Hp & Hv) Hn].
    - exists []. split; constructor.
    - exists g. split; [exact Hp|]. eapply nv_closure; eassumption.
    - exists (g ++ [tr_symbol t]). split; [constructor; assumption|]. apply nv_goto; assumption.
  Qed.

  Lemma nvalid1_state g it : nvalid1 g it -> forall k, npath g k -> exists st, nth_error states k = Some st /\ In it st.
  Proof.
    induction 1 as [|g jt it _ IH Himp|g it x _ IH Hn]; intros k Hp.
    - rewrite (npath_inv_nil _ Hp). destruct (mi_start cx m HM) as (st0 & H0 & Hin & _). exists st0. auto.
    - destruct (IH k Hp) as (st & Hst & Hin). exists st. split; [exact Hst|].
      destruct (mi_states cx m HM k st Hst) as (_ & Hcl & _). exact (Hcl jt it Hin Himp).
    - apply npath_inv_snoc in Hp as (t & Ht & Hp & Hx & Hk). destruct (IH _ Hp) as (sf & Hsf & Hin).
      destruct (mi_goto cx m HM _ sf it x Hsf Hin Hn) as (t' & st' & Ht' & Hf' & Hs' & Hst' & Hin').
      rewrite <- Hk. rewrite <- (mi_det cx m HM t' t Ht' Ht Hf' (eq_trans Hs' (eq_sym Hx))). exists st'. auto.
  Qed.

  Theorem canon_merge k st it : nth_error states k = Some st ->
    (In it st <-> exists g, npath g k /\ nvalid1 g it).
  Proof.
    intros Hst. split.
    - intros Hin. apply der_nvalid1. exact (HD k st it Hst Hin).
    - intros (g & Hp & Hv). destruct (nvalid1_state g it Hv k Hp) as (st' & Hst' & Hin). congruence.
  Qed.

  Lemma next_sym_core it it' : core_of it = core_of it' -> next_sym it' = next_sym it.
  Proof. unfold core_of, ClosureProofs.next_sym. intros H. injection H as -> ->. reflexivity. Qed.

  Lemma reach_lift g K :
    (forall it, In it K -> exists it', nvalid1 g it' /\ core_of it' = core_of it) ->
    forall it, reach K it -> exists it', nvalid1 g it' /\ core_of it' = core_of it.
  Proof.
    intros HK it H. induction H as [it Hin|jt it _ (jt' & Hv & Hc) Himp]; [apply HK, Hin|].
    destruct (implied_by_core cx jt jt' it (eq_sym Hc) Himp) as (x' & Himp' & Hc').
    exists x'. split; [eapply nv_closure; eassumption|exact Hc'].
  Qed.

  Theorem canon_same_core g k : npath g k -> forall st it, nth_error states k = Some st -> In it st ->
    exists it', nvalid1 g it' /\ core_of it' = core_of it.
  Proof.
    induction 1 as [|g t Hp IHp Ht]; intros st it Hst Hin;
      apply (reach_lift _ (kernel st)); try exact (mi_reach cx m HM _ st it Hst Hin); clear it Hin;
      intros it Hk; unfold kernel in Hk; apply filter_In in Hk as (Hin & Hk).
    - (* the start state: all its items have dot 0, so a kernel item is the start item *)
      destruct (mi_start cx m HM) as (st0 & H0 & _ & Hd0). rewrite Hst in H0. injection H0 as <-.
      pose proof (Hd0 it Hin) as Hd. unfold is_kernel in Hk. rewrite Hd in Hk. cbn in Hk.
      destruct (it_rule it) as [r|] eqn:Er; [discriminate|].
      exists start_item. split; [constructor|]. unfold core_of. cbn. rewrite Er, Hd. reflexivity.
    - destruct (mi_trans_bound cx m HM t Ht) as (Hf & _ & Hns).
      assert (Hsf : exists sf, nth_error states (tr_from t) = Some sf).
      { destruct (nth_error states (tr_from t)) as [sf|] eqn:Esf; [eauto|apply nth_error_None in Esf; lia]. }
      destruct Hsf as (sf & Esf).
      destruct (Nat.eq_dec (it_dot it) 0) as [Hd|Hd].
      + (* a dot-0 kernel item would be the start item, which only the start state has *)
        exfalso. unfold is_kernel in Hk. rewrite Hd in Hk. cbn in Hk. destruct (it_rule it) as [r|] eqn:Er; [discriminate|].
        destruct (mi_states cx m HM _ st Hst) as (_ & _ & _ & Hj). destruct (Hj it Hin Hd) as [(_ & Hs)|(jt & _ & Himp)]; [exact (Hns Hs)|].
        destruct Himp as (? & ? & r & ? & ? & _ & _ & _ & _ & _ & ->). discriminate.
      + destruct (mi_back cx m HM t sf st it Ht Esf Hst Hin ltac:(lia)) as (it0 & Hin0 & Hn0 & Hr0 & Hd0).
        destruct (IHp sf it0 Esf Hin0) as (it0' & Hv & Hc).
        exists (adv it0'). split; [apply nv_goto; [exact Hv|rewrite (next_sym_core it0 it0' (eq_sym Hc)); exact Hn0]|].
        unfold core_of in *. cbn [adv it_rule it_dot]. injection Hc as -> ->. rewrite Hr0, Hd0. reflexivity.
  Qed.

  (* every state is reached, so it is the merge of at least one canonical set *)
  Corollary canon_reached k st it : nth_error states k = Some st -> In it st -> exists g, npath g k.
  Proof. intros Hst Hin. apply (canon_merge k st it Hst) in Hin as (g & Hp & _). exists g. exact Hp. Qed.
End CanonMachine.
