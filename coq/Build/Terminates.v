(* Build/Terminates.v — the loops of validated_ast_to_machine terminate (C07, "never loops"):
   for explicit fuel bounds computed from the grammar, no loop of the model returns OutOfFuel.
     FIRST fixpoint : every pass that reports a change adds a terminal or a nullable flag to a map
                      whose entries are bounded by the terminals that occur in the rules;
     closure        : every item that is inserted is new and belongs to a finite universe of items,
                      and brings a bounded number of implied items into the queue;
     worklist       : (below, Section Build) states have pairwise distinct cores, hence at most
                      2^|cores| of them, each with at most |universe| items; every re-queueing adds an
                      item to a state. *)
From Coq Require Import List Arith Lia Bool Sorting.Sorted.
From Kiki Require Import Base.Ord Base.OrdProofs Base.Chars Data DataProofs Oset.Model Oset.Proofs Ast.ValidateProofs
  Build.Machine Build.Table Build.TableProofs Build.FillProofs Build.TableSpec Build.ClosureProofs Build.LoopProofs
  Build.LoopInv Build.FirstProofs Build.NoPanic Build.FuelMono Nf.
Import ListNotations.
Open Scope nat_scope.

(* ---------- generalities ---------- *)
Lemma flat_map_length_le {A B} (f : A -> list B) c l : (forall x, In x l -> length (f x) <= c) ->
  length (flat_map f l) <= length l * c.
Proof.
  induction l as [|x l IH]; intros H; cbn [flat_map length]; [lia|]. rewrite app_length.
  specialize (H x (or_introl eq_refl)) as Hx. specialize (IH (fun y Hy => H y (or_intror Hy))). lia.
Qed.

Definition toks_of (rules : list rule) : list str :=
  flat_map (fun ru => flat_map (fun s => match s with SymT t => [t] | SymN _ => [] end) (field_symbols (ru_fieldset ru))) rules.

Lemma In_toks_of rules t : In t (toks_of rules) <-> exists ru, In ru rules /\ In (SymT t) (field_symbols (ru_fieldset ru)).
Proof.
  unfold toks_of. rewrite in_flat_map. split; intros (ru & Hru & H); exists ru; (split; [exact Hru|]).
  - apply in_flat_map in H as ([u|n] & Hs & Hu); [|destruct Hu]. destruct Hu as [<-|[]]. exact Hs.
  - apply in_flat_map. exists (SymT t). split; [exact H|left; reflexivity].
Qed.

(* ---------- the FIRST fixpoint ---------- *)
Section FirstTerm.
  Variable rules : list rule.
  Notation B := (S (length (toks_of rules))).

  Definition weight (fs : first_set) : nat := length (fs_terminals fs) + (if fs_eps fs then 1 else 0).
  Definition content (m : first_map) : nat := list_sum (map (fun kv => weight (snd kv)) m).

  Lemma content_cons k v m : content ((k, v) :: m) = weight v + content m.
  Proof. reflexivity. Qed.

  Lemma content_set m k old v : fm_get m k = Some old -> content (fm_set m k v) + weight old = content m + weight v.
  Proof.
    induction m as [|[k' v'] m IH]; cbn [fm_get fm_set]; [discriminate|]. destruct (str_eqb k k').
    - intros H; injection H as ->. rewrite !content_cons. lia.
    - intros H. specialize (IH H). rewrite !content_cons. lia.
  Qed.

  Lemma fm_get_of_In m : NoDup (map fst m) -> forall k v, In (k, v) m -> fm_get m k = Some v.
  Proof.
    induction m as [|[k' v'] m IH]; intros Hnd k v Hin; [destruct Hin|]. inversion Hnd as [|? ? Hk Hnd']; subst. cbn [fm_get].
    destruct Hin as [E|Hin].
    - injection E as -> ->. rewrite str_eqb_refl. reflexivity.
    - destruct (str_eqb k k') eqn:E; [|apply IH; assumption]. apply str_eqb_eq in E. subst. exfalso. apply Hk.
      apply in_map_iff. exists (k', v). auto.
  Qed.

  Lemma keys_nodup m : FInv rules m -> NoDup (map fst m).
  Proof. intros H. rewrite (fi_keys rules m H). apply (ssorted_nodup str_cmp str_cmp_laws), (ofrom_iter_sorted str_cmp str_cmp_laws). Qed.

  Lemma weight_bound m k v : FInv rules m -> fm_get m k = Some v -> weight v <= B.
  Proof.
    intros HF Hg. unfold weight.
    assert (length (fs_terminals v) <= length (toks_of rules)).
    { apply NoDup_incl_length; [apply (ssorted_nodup str_cmp str_cmp_laws), (fi_sorted rules m HF k v Hg)|].
      intros t Ht. apply In_toks_of. exact (fi_occurs rules m HF k v t Hg Ht). }
    destruct (fs_eps v); lia.
  Qed.

  Lemma content_bound m : FInv rules m -> content m <= length m * B.
  Proof.
    intros HF. pose proof (keys_nodup m HF) as Hnd.
    assert (H : forall kv, In kv m -> weight (snd kv) <= B).
    { intros [k v] Hin. apply (weight_bound m k v HF). apply fm_get_of_In; assumption. }
    clear HF Hnd. induction m as [|[k v] m IH]; [cbn; lia|]. rewrite content_cons. cbn [length].
    specialize (H (k, v) (or_introl eq_refl)) as Hkv. cbn [snd] in Hkv. specialize (IH (fun x Hx => H x (or_intror Hx))). lia.
  Qed.

  Lemma expand_rule_grows m ru m' c : FInv rules m -> expand_rule m ru = Ok (m', c) ->
    content m <= content m' /\ (c = true -> content m < content m').
  Proof.
    intros HF H. unfold expand_rule in H. destruct (fm_get m (ru_type ru)) as [old|] eqn:Eo; [|discriminate].
    injection H as <- <-.
    set (cur := get_current_first_set m (ru_fieldset ru)).
    set (terms := oextend str_cmp (fs_terminals old) (fs_terminals cur)).
    pose proof (content_set m (ru_type ru) old {| fs_terminals := terms; fs_eps := fs_eps old || fs_eps cur |} Eo) as Hc.
    assert (Hlen : length (fs_terminals old) <= length terms).
    { apply NoDup_incl_length; [apply (ssorted_nodup str_cmp str_cmp_laws), (fi_sorted rules m HF _ _ Eo)|].
      intros t Ht. apply (oextend_in str_cmp str_cmp_laws). left. exact Ht. }
    unfold weight in Hc. cbn [fs_terminals fs_eps] in Hc. split.
    - destruct (fs_eps old), (fs_eps cur); cbn [orb] in *; cbv beta iota in Hc; lia.
    - intros Hch. apply orb_true_iff in Hch as [Hch|Hch].
      + apply negb_true_iff, Nat.eqb_neq in Hch. fold terms in Hch. destruct (fs_eps old), (fs_eps cur); cbn [orb] in *; cbv beta iota in Hc; lia.
      + apply negb_true_iff in Hch. destruct (fs_eps old), (fs_eps cur); cbn [orb Bool.eqb] in *; cbv beta iota in Hc; try discriminate; lia.
  Qed.

  Lemma nf_expand_rule m ru : nf (expand_rule m ru).
  Proof. unfold expand_rule. destruct (fm_get m (ru_type ru)); discriminate 1. Qed.

  Lemma nf_expand rs : forall m ch, nf (expand m rs ch).
  Proof.
    induction rs as [|r rs IH]; intros m ch; cbn [expand]; [discriminate 1|].
    apply nf_bind; [apply nf_expand_rule|]. intros [m' c]. apply IH.
  Qed.

  Lemma expand_grows rs : forall m ch m' c, FInv rules m -> incl rs rules -> expand m rs ch = Ok (m', c) ->
    content m <= content m' /\ (c = true -> ch = true \/ content m < content m').
  Proof.
    induction rs as [|r rs IH]; intros m ch m' c HF Hin H; cbn [expand] in H.
    - injection H as <- <-. split; [lia|]. intros ->. left. reflexivity.
    - apply bind_ok in H as ([m1 c1] & H1 & H).
      destruct (expand_rule_grows m r m1 c1 HF H1) as (G1 & G2).
      destruct (expand_rule_spec rules m r m1 c1 HF (Hin r (or_introl eq_refl)) H1) as (HF1 & _).
      destruct (IH m1 (ch || c1) m' c HF1 (fun x Hx => Hin x (or_intror Hx)) H) as (G3 & G4).
      split; [lia|]. intros Hc. destruct (G4 Hc) as [Ho|Hlt]; [|right; lia].
      apply orb_true_iff in Ho as [Ho|Ho]; [left; exact Ho|right; specialize (G2 Ho); lia].
  Qed.

  Lemma first_loop_terminates : forall k m, FInv rules m -> length m * B <= content m + k ->
    nf (first_loop (S k) rules m).
  Proof.
    induction k as [|k IH]; intros m HF Hb; cbn [first_loop].
    - pose proof (nf_expand rules m false) as Hn. destruct (expand m rules false) as [[m' c]|e|s|s] eqn:E; cbn [bind];
        [|discriminate 1|discriminate 1|exfalso; exact (nf_oof _ Hn)].
      destruct c; [|discriminate 1]. exfalso.
      destruct (expand_grows rules m false m' true HF (fun x Hx => Hx) E) as (_ & G). destruct (G eq_refl) as [G'|G']; [discriminate|].
      destruct (expand_spec rules rules m false m' true HF (fun x Hx => Hx) E) as (HF' & _).
      pose proof (content_bound m' HF') as Hb'.
      assert (length m' = length m).
      { rewrite <- (map_length fst m'), <- (map_length fst m), (fi_keys rules m' HF'), (fi_keys rules m HF). reflexivity. }
      lia.
    - pose proof (nf_expand rules m false) as Hn. destruct (expand m rules false) as [[m' c]|e|s|s] eqn:E; cbn [bind];
        [|discriminate 1|discriminate 1|exfalso; exact (nf_oof _ Hn)].
      destruct c; [|discriminate 1].
      destruct (expand_grows rules m false m' true HF (fun x Hx => Hx) E) as (_ & G). destruct (G eq_refl) as [G'|G']; [discriminate|].
      destruct (expand_spec rules rules m false m' true HF (fun x Hx => Hx) E) as (HF' & _).
      assert (length m' = length m).
      { rewrite <- (map_length fst m'), <- (map_length fst m), (fi_keys rules m' HF'), (fi_keys rules m HF). reflexivity. }
      apply IH; [exact HF'|lia].
  Qed.

  Definition first_fuel : nat := S (length (ofrom_iter str_cmp (map ru_type rules)) * B).

  Theorem get_first_sets_terminates f : first_fuel <= f -> nf (get_first_sets f rules).
  Proof.
    intros Hle.
    assert (H0 : nf (get_first_sets first_fuel rules)).
    { unfold get_first_sets, first_fuel. apply first_loop_terminates.
      - split.
        + rewrite map_map. cbn [fst]. apply map_id.
        + intros n fs H. apply fm_get_In in H. apply in_map_iff in H as (k & E & _). injection E as _ <-. constructor.
        + intros n fs t H. apply fm_get_In in H. apply in_map_iff in H as (k & E & _). injection E as _ <-. intros [].
      - rewrite map_length. lia. }
    rewrite (get_first_sets_mono rules first_fuel f H0 Hle). exact H0.
  Qed.
End FirstTerm.

(* ---------- a finite universe of items ---------- *)
Section Universe.
  Variable cx : context.
  Notation rules := (cx_rules cx).

  Definition max_len : nat := fold_right Nat.max 1 (map (fun ru => length (field_symbols (ru_fieldset ru))) rules).
  Definition uni_rules : list (option nat) := None :: map Some (seq 0 (length rules)).
  Definition uni_las : list (option str) := None :: map Some (toks_of rules).
  Definition uni_cores : list (option nat * nat) :=
    flat_map (fun r => map (fun d => (r, d)) (seq 0 (S max_len))) uni_rules.
  Definition universe : list item :=
    flat_map (fun c => map (fun la => {| it_rule := fst c; it_la := la; it_dot := snd c |}) uni_las) uni_cores.

  Lemma max_len_ge ru : In ru rules -> length (field_symbols (ru_fieldset ru)) <= max_len.
  Proof.
    unfold max_len. induction rules as [|x l IH]; intros H; [destruct H|]. cbn [map fold_right].
    destruct H as [<-|H]; [lia|]. specialize (IH H). lia.
  Qed.

  Lemma max_len_pos : 1 <= max_len.
  Proof. unfold max_len. induction rules as [|x l IH]; cbn [map fold_right]; lia. Qed.

  Lemma core_in_universe it : item_wf cx it -> In (core_of it) uni_cores.
  Proof.
    intros (rhs & Hr & Hd). unfold uni_cores, core_of. apply in_flat_map. exists (it_rule it). split.
    - unfold uni_rules. destruct (it_rule it) as [r|] eqn:E; [right|left; reflexivity]. apply in_map, in_seq.
      cbn in Hr. destruct (nth_error rules r) eqn:En; [|discriminate]. split; [lia|]. apply nth_error_Some. congruence.
    - apply in_map_iff. exists (it_dot it). split; [reflexivity|]. apply in_seq. split; [lia|].
      destruct (it_rule it) as [r|]; cbn in Hr.
      + destruct (nth_error rules r) as [ru|] eqn:En; [|discriminate]. injection Hr as <-.
        pose proof (max_len_ge ru (nth_error_In _ _ En)). lia.
      + injection Hr as <-. cbn in Hd. pose proof max_len_pos. lia.
  Qed.

  Lemma item_in_universe it : item_ok cx it -> In it universe.
  Proof.
    intros (Hwf & Hla). unfold universe. apply in_flat_map. exists (core_of it). split; [apply core_in_universe, Hwf|].
    apply in_map_iff. exists (it_la it). split; [destruct it; reflexivity|].
    unfold uni_las. unfold la_ok in Hla. destruct (it_la it) as [t|]; [right|left; reflexivity].
    apply in_map. apply In_toks_of. exact (proj1 Hla).
  Qed.

  Lemma state_size st : isorted st -> (forall it, In it st -> item_ok cx it) -> length st <= length universe.
  Proof.
    intros Hs Hok. apply NoDup_incl_length; [apply (ssorted_nodup item_cmp item_cmp_laws), Hs|].
    intros it Hin. apply item_in_universe, Hok, Hin.
  Qed.
End Universe.

(* ---------- the closure loop ---------- *)
Section ClosureTerm.
  Variable cx : context.
  Hypothesis Hfm : fm_ok cx.
  Notation U := (universe cx).
  Notation rules := (cx_rules cx).

  Definition imp_bound : nat := length (uni_las cx) * length rules.

  Lemma enumerate_length {A} (l : list A) : length (enumerate l) = length l.
  Proof.
    unfold enumerate. generalize 0. induction l as [|x l IH]; intros k; cbn; [reflexivity|]. rewrite IH. reflexivity.
  Qed.

  Lemma rule_indices_length name : length (rule_indices_for cx name) <= length rules.
  Proof.
    unfold rule_indices_for. rewrite <- (enumerate_length rules), <- (Nat.mul_1_r (length (enumerate rules))).
    apply flat_map_length_le. intros [i r] _. destruct (str_eqb (ru_type r) name); cbn; lia.
  Qed.

  Lemma augmented_first_nodup f la : NoDup (augmented_first f la).
  Proof.
    unfold augmented_first. destruct (fs_eps f);
      apply (ssorted_nodup lookahead_cmp lookahead_cmp_laws), (ofrom_iter_sorted lookahead_cmp lookahead_cmp_laws).
  Qed.

  Lemma implied_length it l : item_ok cx it -> closure_implied_items cx it = Ok l -> length l <= imp_bound.
  Proof.
    intros Hok H. pose proof (closure_implied_items_spec cx it l H) as (_ & Hspec).
    unfold closure_implied_items in H. apply bind_ok in H as (sym & Hs & H).
    destruct sym as [[t|name]|]; try (injection H as <-; cbn; lia).
    apply bind_ok in H as (after & Ha & H). injection H as E.
    set (las := augmented_first (first_of_sequence (cx_first cx) after []) (it_la it)) in *.
    destruct (rule_indices_for cx name) as [|r0 rs] eqn:Eri.
    - subst l. clear. induction las as [|a las IH]; cbn; [lia|exact IH].
    - assert (Hlen : length l <= length las * length (rule_indices_for cx name)).
      { subst l. rewrite Eri. apply flat_map_length_le. intros la _. rewrite map_length. lia. }
      assert (Hlas : length las <= length (uni_las cx)).
      { apply NoDup_incl_length; [apply augmented_first_nodup|]. intros la Hla.
        assert (Hx : In {| it_rule := Some r0; it_la := la; it_dot := 0 |} l).
        { subst l. apply in_flat_map. exists la. split; [exact Hla|]. apply in_map_iff. exists r0. split; [reflexivity|left; reflexivity]. }
        apply Hspec in Hx. destruct (implied_by_ok cx it _ Hfm Hok Hx) as (_ & Hla'). unfold la_ok in Hla'. cbn [it_la it_rule] in Hla'.
        unfold uni_las. destruct la as [u|]; [right|left; reflexivity]. apply in_map, In_toks_of. exact (proj1 Hla'). }
      pose proof (rule_indices_length name). unfold imp_bound. nia.
  Qed.

  Lemma nf_closure_implied_items it : nf (closure_implied_items cx it).
  Proof.
    unfold closure_implied_items. apply nf_bind.
    - unfold symbol_right_of_dot. destruct (it_rule it); [apply nf_bind; [apply nf_unwrap|intros; discriminate 1]|discriminate 1].
    - intros [[t|n]|]; try discriminate 1. apply nf_bind; [|intros; discriminate 1].
      unfold symbols_after_dot. cbn [it_rule]. destruct (it_rule it); [apply nf_bind; [apply nf_unwrap|intros; discriminate 1]|discriminate 1].
  Qed.

  (* k bounds the number of items that can still be inserted *)
  Lemma closure_loop_terminates : forall k q items f,
      isorted items -> (forall x, In x items -> item_ok cx x) -> (forall x, In x q -> item_ok cx x) ->
      length U <= length items + k -> length q + k * imp_bound + 1 <= f ->
      nf (closure_loop f cx q items).
  Proof.
    induction k as [|k IHk]; intros q; induction q as [|next q IHq]; intros items f Hs Hi Hq Hk Hf;
      (destruct f as [|f]; [cbn [length] in Hf; lia|]); cbn [closure_loop]; try discriminate 1.
    - (* nothing can be inserted any more: next is already there *)
      destruct (ocontains item_cmp next items) eqn:Ec.
      + apply IHq; try assumption; [intros x Hx; apply Hq; right; exact Hx|cbn [length] in Hf; lia].
      + exfalso. assert (Hn : ~ In next items) by (intros Hin; apply (ocontains_item next items Hs) in Hin; congruence).
        assert (length (next :: items) <= length U).
        { apply NoDup_incl_length; [constructor; [exact Hn|apply (ssorted_nodup item_cmp item_cmp_laws), Hs]|].
          intros x [<-|Hx]; apply item_in_universe; [apply Hq; left; reflexivity|apply Hi, Hx]. }
        cbn [length] in *. lia.
    - destruct (ocontains item_cmp next items) eqn:Ec.
      + apply IHq; try assumption; [intros x Hx; apply Hq; right; exact Hx|cbn [length] in Hf; lia].
      + pose proof (nf_closure_implied_items next) as Hn.
        destruct (closure_implied_items cx next) as [implied|e|s|s] eqn:Ei; cbn [bind];
          [|discriminate 1|discriminate 1|exfalso; exact (nf_oof _ Hn)].
        assert (Hnext : item_ok cx next) by (apply Hq; left; reflexivity).
        assert (Hnin : ~ In next items) by (intros Hin; apply (ocontains_item next items Hs) in Hin; congruence).
        assert (Hlen : S (length items) <= length (oinsert item_cmp next items)).
        { change (S (length items)) with (length (next :: items)).
          apply NoDup_incl_length; [constructor; [exact Hnin|apply (ssorted_nodup item_cmp item_cmp_laws), Hs]|].
          intros x Hx. apply (oinsert_in item_cmp item_cmp_laws). destruct Hx as [<-|Hx]; auto. }
        pose proof (implied_length next implied Hnext Ei) as Himp.
        apply IHk.
        * apply oinsert_item_sorted, Hs.
        * intros x Hx. apply (oinsert_in item_cmp item_cmp_laws) in Hx as [->|Hx]; [exact Hnext|apply Hi, Hx].
        * intros x Hx. apply in_app_or in Hx as [Hx|Hx]; [apply Hq; right; exact Hx|].
          apply (closure_implied_items_spec cx next implied Ei) in Hx. exact (implied_by_ok cx next x Hfm Hnext Hx).
        * lia.
        * rewrite app_length. cbn [length] in Hf. lia.
  Qed.

  Definition closure_fuel (qlen : nat) : nat := qlen + length U * imp_bound + 1.

  Theorem get_closure_terminates K f : (forall x, In x K -> item_ok cx x) -> closure_fuel (length K) <= f ->
    nf (get_closure f cx K).
  Proof.
    intros HK Hf. unfold get_closure. apply (closure_loop_terminates (length U) K [] f); try assumption.
    - apply isorted_nil.
    - intros x [].
    - cbn [length]. lia.
  Qed.
End ClosureTerm.

(* ---------- all subsequences of a list ---------- *)
Fixpoint subseqs {A} (l : list A) : list (list A) :=
  match l with
  | [] => [[]]
  | x :: r => map (cons x) (subseqs r) ++ subseqs r
  end.

Lemma subseqs_length {A} (l : list A) : length (subseqs l) = 2 ^ length l.
Proof. induction l as [|x l IH]; [reflexivity|]. cbn [subseqs length Nat.pow]. rewrite app_length, map_length, IH. lia. Qed.

Lemma filter_in_subseqs {A} (f : A -> bool) l : In (filter f l) (subseqs l).
Proof.
  induction l as [|x l IH]; [left; reflexivity|]. cbn [filter subseqs]. apply in_or_app. destruct (f x).
  - left. apply in_map, IH.
  - right. exact IH.
Qed.

Lemma NoDup_map_nth {A B} (g : A -> B) (l : list A) :
  (forall i j a a', nth_error l i = Some a -> nth_error l j = Some a' -> g a = g a' -> i = j) -> NoDup (map g l).
Proof.
  induction l as [|x l IH]; intros H; [constructor|]. cbn [map]. constructor.
  - intros Hin. apply in_map_iff in Hin as (y & Hy & Hin). apply In_nth_error in Hin as (k & Hk).
    specialize (H 0 (S k) x y eq_refl Hk (eq_sym Hy)). discriminate.
  - apply IH. intros i j a a' Hi Hj Hg. specialize (H (S i) (S j) a a' Hi Hj Hg). lia.
Qed.

(* ---------- the worklist ---------- *)
Section BuildTerm.
  Variable cx : context.
  Variable cfuel : nat.
  Hypothesis Hfm : fm_ok cx.
  Notation U := (universe cx).
  Notation W := (length (universe cx)).
  Notation BInv := (BInv cx).
  Notation Cov := (Cov cx).
  Hypothesis Hcf : closure_fuel cx W <= cfuel.

  Definition core_dec (a b : option nat * nat) : {a = b} + {a <> b}.
  Proof. repeat decide equality. Defined.

  Definition core_eqb (a b : option nat * nat) : bool := if core_dec a b then true else false.

  Lemma core_eqb_eq a b : core_eqb a b = true <-> a = b.
  Proof. unfold core_eqb. destruct (core_dec a b); split; intros; congruence. Qed.

  Definition sig (st : state) : list (option nat * nat) :=
    filter (fun c => existsb (fun it => core_eqb (core_of it) c) st) (uni_cores cx).

  Lemma sig_in st c : In c (sig st) <-> In c (uni_cores cx) /\ In c (map core_of st).
  Proof.
    unfold sig. rewrite filter_In, existsb_exists. split; intros (H1 & H2); (split; [exact H1|]).
    - destruct H2 as (it & Hin & He). apply core_eqb_eq in He. subst. apply in_map, Hin.
    - apply in_map_iff in H2 as (it & <- & Hin). exists it. split; [exact Hin|apply core_eqb_eq; reflexivity].
  Qed.

  Lemma sig_inj st st' : (forall it, In it st -> item_ok cx it) -> (forall it, In it st' -> item_ok cx it) ->
    sig st = sig st' -> same_cores st st'.
  Proof.
    intros H1 H2 E c. split; intros Hc.
    - assert (Hs : In c (sig st)).
      { apply sig_in. split; [|exact Hc]. apply in_map_iff in Hc as (it & <- & Hin). apply core_in_universe, (H1 it Hin). }
      rewrite E in Hs. apply sig_in in Hs. exact (proj2 Hs).
    - assert (Hs : In c (sig st')).
      { apply sig_in. split; [|exact Hc]. apply in_map_iff in Hc as (it & <- & Hin). apply core_in_universe, (H2 it Hin). }
      rewrite <- E in Hs. apply sig_in in Hs. exact (proj2 Hs).
  Qed.

  Definition max_states : nat := 2 ^ length (uni_cores cx).

  Lemma states_bound b : BInv b -> length (b_states b) <= max_states.
  Proof.
    intros HB. unfold max_states. rewrite <- subseqs_length, <- (map_length sig (b_states b)).
    apply NoDup_incl_length.
    - apply NoDup_map_nth. intros i j a a' Hi Hj Hg. apply (bi_uniq cx b HB i j a a' Hi Hj).
      apply sig_inj; [| |exact Hg].
      + intros it Hin. destruct (bi_states cx b HB i a Hi) as (_ & _ & Hok & _). apply Hok, Hin.
      + intros it Hin. destruct (bi_states cx b HB j a' Hj) as (_ & _ & Hok & _). apply Hok, Hin.
    - intros s Hs. apply in_map_iff in Hs as (st & <- & _). apply filter_in_subseqs.
  Qed.

  (* total size of the states, every state counted once more than its items *)
  Definition ssize (l : list state) : nat := list_sum (map (fun st => S (length st)) l).
  Definition bound : nat := max_states * S W.

  Lemma ssize_cons st l : ssize (st :: l) = S (length st) + ssize l.
  Proof. reflexivity. Qed.

  Lemma ssize_app l st : ssize (l ++ [st]) = ssize l + S (length st).
  Proof. induction l as [|x l IH]; [cbn; lia|]. cbn [app]. rewrite !ssize_cons, IH. lia. Qed.

  Lemma ssize_set l : forall i old st', nth_error l i = Some old -> ssize (list_set l i st') + length old = ssize l + length st'.
  Proof.
    induction l as [|x l IH]; intros [|i] old st' H; cbn in H; try discriminate; cbn [list_set]; rewrite !ssize_cons.
    - injection H as ->. lia.
    - specialize (IH i old st' H). lia.
  Qed.

  Lemma ssize_bound b : BInv b -> ssize (b_states b) <= bound.
  Proof.
    intros HB. pose proof (states_bound b HB) as Hn.
    assert (Hall : forall st, In st (b_states b) -> S (length st) <= S W).
    { intros st Hin. apply In_nth_error in Hin as (i & Hi). destruct (bi_states cx b HB i st Hi) as (Hs & _ & Hok & _).
      pose proof (state_size cx st Hs Hok). lia. }
    assert (ssize (b_states b) <= length (b_states b) * S W).
    { clear Hn. induction (b_states b) as [|x l IH]; [cbn; lia|]. rewrite ssize_cons. cbn [length].
      specialize (Hall x (or_introl eq_refl)) as Hx. specialize (IH (fun y Hy => Hall y (or_intror Hy))). lia. }
    unfold bound. nia.
  Qed.

  Lemma add_items_length items : forall st added st' added',
      add_items st items added = (st', added') -> isorted st ->
      length st <= length st' /\ (added' = true -> added = true \/ length st < length st').
  Proof.
    induction items as [|it items IH]; intros st added st' added' H Hs; cbn [add_items] in H.
    - injection H as <- <-. split; [lia|]. intros ->. left. reflexivity.
    - destruct (ocontains item_cmp it st) eqn:E; [apply (IH _ _ _ _ H Hs)|].
      assert (Hn : ~ In it st) by (intros Hin; apply (ocontains_item it st Hs) in Hin; congruence).
      assert (Hlen : S (length st) <= length (oinsert item_cmp it st)).
      { change (S (length st)) with (length (it :: st)).
        apply NoDup_incl_length; [constructor; [exact Hn|apply (ssorted_nodup item_cmp item_cmp_laws), Hs]|].
        intros x Hx. apply (oinsert_in item_cmp item_cmp_laws). destruct Hx as [<-|Hx]; auto. }
      destruct (IH _ _ _ _ H (oinsert_item_sorted it st Hs)) as (H1 & _). split; [lia|]. intros _. right. lia.
  Qed.

  (* what one enqueue does to queue length and total size *)
  Lemma enqueue_measure b s b' j : BInv b -> enqueue_state_if_needed b s = Ok (b', j) ->
    length (b_queue b') + 2 * ssize (b_states b) <= length (b_queue b) + 2 * ssize (b_states b').
  Proof.
    intros HB H. unfold enqueue_state_if_needed in H. destruct (index_of_mergable (b_states b) s 0) as [i|].
    - destruct (nth_error (b_states b) i) as [old|] eqn:En; [|discriminate]. cbn [unwrap bind] in H.
      destruct (add_items old s false) as [st' added] eqn:Ea. injection H as <- <-. cbn [b_states b_queue].
      destruct (bi_states cx b HB i old En) as (Hs & _).
      destruct (add_items_length s old false st' added Ea Hs) as (H1 & H2).
      pose proof (ssize_set (b_states b) i old st' En) as Hz.
      destruct added; [|lia]. rewrite app_length. cbn [length]. destruct (H2 eq_refl) as [H3|H3]; [discriminate|lia].
    - injection H as <- <-. cbn [b_states b_queue]. rewrite app_length, ssize_app. cbn [length]. lia.
  Qed.

  Lemma nf_symbol_right_of_dot it : nf (symbol_right_of_dot cx it).
  Proof. unfold symbol_right_of_dot. destruct (it_rule it); [apply nf_bind; [apply nf_unwrap|intros; discriminate 1]|discriminate 1]. Qed.

  Lemma nf_advance x it : nf (advance cx x it).
  Proof.
    unfold advance. apply nf_bind; [apply nf_symbol_right_of_dot|]. intros [s|]; [destruct (symbol_eqb s x)|]; discriminate 1.
  Qed.

  Lemma nf_enqueue_state b s : nf (enqueue_state_if_needed b s).
  Proof.
    unfold enqueue_state_if_needed. destruct (index_of_mergable (b_states b) s 0); [|discriminate 1].
    apply nf_bind; [apply nf_unwrap|]. intros old. destruct (add_items old s false). discriminate 1.
  Qed.

  Lemma advK_length st x : length (LoopProofs.advK cx st x) <= length st.
  Proof.
    unfold LoopProofs.advK. rewrite <- (Nat.mul_1_r (length st)). apply flat_map_length_le. intros it _.
    unfold adv_if. destruct (ClosureProofs.next_sym cx it) as [s|]; [destruct (symbol_eqb s x)|]; cbn; lia.
  Qed.

  Lemma nf_transition_target b i x : BInv b -> nf (enqueue_transition_target cfuel cx b i x).
  Proof.
    intros HB. unfold enqueue_transition_target. destruct (nth_error (b_states b) i) as [st|] eqn:Ei; [|discriminate 1].
    cbn [unwrap bind]. pose proof (nf_map_res (advance cx x) st (nf_advance x)) as Hm.
    destruct (map_res (advance cx x) st) as [advanced|e|s|s] eqn:Ea; cbn [bind]; [|discriminate 1|discriminate 1|exfalso; exact (nf_oof _ Hm)].
    destruct (bi_states cx b HB i st Ei) as (Hs & _ & Hok & _).
    apply nf_bind.
    - rewrite (map_advance_spec cx x st advanced Ea). apply (get_closure_terminates cx Hfm).
      + apply (advK_ok cx st x Hok).
      + pose proof (advK_length st x). pose proof (state_size cx st Hs Hok). unfold closure_fuel in *. lia.
    - intros target. apply nf_bind; [apply nf_enqueue_state|]. intros [b' to]. discriminate 1.
  Qed.

  Lemma transition_target_measure b i x b' : BInv b -> enqueue_transition_target cfuel cx b i x = Ok b' ->
    length (b_queue b') + 2 * ssize (b_states b) <= length (b_queue b) + 2 * ssize (b_states b').
  Proof.
    intros HB H. unfold enqueue_transition_target in H. apply bind_ok in H as (st & _ & H).
    apply bind_ok in H as (advanced & _ & H). apply bind_ok in H as (target & _ & H).
    apply bind_ok in H as ([b1 to] & He & H). injection H as <-. cbn [b_states b_queue].
    exact (enqueue_measure b target b1 to HB He).
  Qed.

  Lemma targets_nf_measure i syms : forall b,
      BInv b -> Cov b [i] ->
      (forall x, In x syms -> exists sti it, sts b i = Some sti /\ In it sti /\ ClosureProofs.next_sym cx it = Some x) ->
      nf (enqueue_targets cfuel cx b i syms) /\
      forall b', enqueue_targets cfuel cx b i syms = Ok b' ->
                 length (b_queue b') + 2 * ssize (b_states b) <= length (b_queue b) + 2 * ssize (b_states b').
  Proof.
    induction syms as [|x syms IH]; intros b HB HC Hsy; cbn [enqueue_targets].
    - split; [discriminate 1|]. intros b' H. injection H as <-. lia.
    - pose proof (nf_transition_target b i x HB) as Hn.
      destruct (enqueue_transition_target cfuel cx b i x) as [b1|e|s|s] eqn:E1; cbn [bind];
        [|split; [discriminate 1|discriminate]|split; [discriminate 1|discriminate]|exfalso; exact (nf_oof _ Hn)].
      destruct (transition_target_spec cx cfuel Hfm b i x b1 HB HC (Hsy x (or_introl eq_refl)) E1) as (He1 & HB1 & HC1 & _).
      pose proof (transition_target_measure b i x b1 HB E1) as Hm1.
      assert (Hsy1 : forall y, In y syms -> exists sti it, sts b1 i = Some sti /\ In it sti /\ ClosureProofs.next_sym cx it = Some y).
      { intros y Hy. destruct (Hsy y (or_intror Hy)) as (sti & it & Hs & Hit & Hnx).
        destruct (proj1 He1 i sti Hs) as (sti1 & Hs1 & Hinc & _). exists sti1, it. auto. }
      destruct (IH b1 HB1 HC1 Hsy1) as (Hnf & Hmeas). split; [exact Hnf|].
      intros b' H. specialize (Hmeas b' H). lia.
  Qed.

  Definition potential (b : builder) : nat := 2 * (bound - ssize (b_states b)) + length (b_queue b).

  Lemma build_loop_terminates : forall f b, BInv b -> Cov b [] -> potential b < f -> nf (build_loop f cfuel cx b).
  Proof.
    induction f as [|f IH]; intros b HB HC Hp; [lia|]. cbn [build_loop].
    destruct (b_queue b) as [|i q] eqn:Eq; [discriminate 1|].
    cbn [b_states]. destruct (nth_error (b_states b) i) as [sti|] eqn:Ei; [|discriminate 1]. cbn [unwrap bind].
    assert (Hns : nf (symbols_right_of_dot cx sti)).
    { unfold symbols_right_of_dot. apply nf_bind; [apply nf_map_res, nf_symbol_right_of_dot|intros; discriminate 1]. }
    destruct (symbols_right_of_dot cx sti) as [syms|e|s|s] eqn:Es; cbn [bind]; [|discriminate 1|discriminate 1|exfalso; exact (nf_oof _ Hns)].
    set (b0 := {| b_states := b_states b; b_transitions := b_transitions b; b_queue := q |}) in *.
    assert (HB0 : BInv b0).
    { destruct HB as [A B C D E F G H']. split; auto. intros k Hk. apply B. rewrite Eq. right. exact Hk. }
    assert (HC0 : Cov b0 [i]).
    { intros k Hk1 Hk2 Hk3. cbn [b_states b_queue] in *.
      assert (Hc : cov_at cx b k). { apply HC; [exact Hk1| |intros []]. rewrite Eq. intros [<-|Hin]; [apply Hk3; left; reflexivity|contradiction]. }
      exact Hc. }
    pose proof (symbols_right_of_dot_spec cx sti syms Es) as Hsyms.
    assert (Hsy : forall x, In x syms -> exists sti0 it, sts b0 i = Some sti0 /\ In it sti0 /\ ClosureProofs.next_sym cx it = Some x).
    { intros x Hx. apply Hsyms in Hx as (it & Hit & Hn). exists sti, it. auto. }
    destruct (targets_nf_measure i syms b0 HB0 HC0 Hsy) as (Hnf & Hmeas).
    destruct (enqueue_targets cfuel cx b0 i syms) as [b1|e|s|s] eqn:Et; cbn [bind]; [|discriminate 1|discriminate 1|exfalso; exact (nf_oof _ Hnf)].
    destruct (targets_spec cx cfuel Hfm i syms b0 b1 HB0 HC0 Hsy Et) as (He & HB1 & HC1 & Hcov).
    apply IH; [exact HB1| |].
    - intros k Hk1 Hk2 _. destruct (Nat.eq_dec k i) as [->|Hne]; [|apply HC1; [exact Hk1|exact Hk2|intros [E|[]]; congruence]].
      intros st' it x Hs' Hit Hn.
      destruct (proj1 He i sti Ei) as (sti1 & Hs1 & _ & _ & [->|Hin]); [|contradiction].
      rewrite Hs1 in Hs'. injection Hs' as <-.
      apply (Hcov sti it x Ei Hit); [|exact Hn]. apply Hsyms. eauto.
    - specialize (Hmeas b1 eq_refl). unfold b0 in Hmeas. cbn [b_states b_queue] in Hmeas.
      pose proof (ssize_bound b HB) as Hb. pose proof (ssize_bound b1 HB1) as Hb1.
      unfold potential in *. rewrite Eq in Hp. cbn [length] in Hp. lia.
  Qed.
End BuildTerm.

(* ---------- the whole stage ---------- *)
Lemma nf_normalize ho states ts : nf (normalize_machine ho states ts).
Proof.
  unfold normalize_machine. apply nf_bind.
  - apply nf_map_res. intros t. unfold update_transition. apply nf_bind; [apply nf_unwrap|]. intros f.
    apply nf_bind; [apply nf_unwrap|]. intros; discriminate 1.
  - intros ts'. apply nf_bind; [apply nf_unwrap|]. intros; discriminate 1.
Qed.

(* fuel that is enough for every loop of validated_ast_to_machine on the file v: a function of
   the rules only (number of rules, longest right-hand side, terminals that occur) *)
Definition machine_fuels (v : vfile) : fuels :=
  let cx := {| cx_start := vf_start v; cx_rules := get_rules v; cx_first := [] |} in
  {| fu_first := first_fuel (get_rules v);
     fu_closure := closure_fuel cx (length (universe cx));
     fu_build := 2 * bound cx + 2;
     fu_unique := 0;
     fu_parse := 0 |}.

Theorem validated_ast_to_machine_terminates ho fu v : fuels_le (machine_fuels v) fu ->
  nf (validated_ast_to_machine ho fu v).
Proof.
  intros (H1 & H2 & H3 & _). cbn [machine_fuels fu_first fu_closure fu_build] in H1, H2, H3.
  unfold validated_ast_to_machine, make_context.
  pose proof (get_first_sets_terminates (get_rules v) (fu_first fu) H1) as Hn1.
  destruct (get_first_sets (fu_first fu) (get_rules v)) as [fm|e|s|s] eqn:Efm; cbn [bind];
    [|discriminate 1|discriminate 1|exfalso; exact (nf_oof _ Hn1)].
  destruct (get_first_sets_spec _ _ _ Efm) as (HFI & _).
  set (cx := {| cx_start := vf_start v; cx_rules := get_rules v; cx_first := fm |}).
  assert (Hfmok : fm_ok cx).
  { intros n fs u Hg Hu. destruct (fi_occurs _ _ HFI n fs u Hg Hu) as (ru & Hru & Hs). exists ru. auto. }
  change (universe {| cx_start := vf_start v; cx_rules := get_rules v; cx_first := [] |}) with (universe cx) in *.
  change (closure_fuel {| cx_start := vf_start v; cx_rules := get_rules v; cx_first := [] |}) with (closure_fuel cx) in *.
  change (bound {| cx_start := vf_start v; cx_rules := get_rules v; cx_first := [] |}) with (bound cx) in *.
  assert (Hstart_ok : item_ok cx (LoopInv.start_item)).
  { split; [|exact I]. exists [SymN (cx_start cx)]. split; [reflexivity|cbn; lia]. }
  assert (HW : 1 <= length (universe cx)).
  { pose proof (item_in_universe cx _ Hstart_ok) as Hin. destruct (universe cx); [destruct Hin|cbn; lia]. }
  assert (Hn2 : nf (get_closure (fu_closure fu) cx [LoopInv.start_item])).
  { apply (get_closure_terminates cx Hfmok); [intros x [<-|[]]; exact Hstart_ok|]. unfold closure_fuel in *. cbn [length]. lia. }
  change {| it_rule := None; it_la := None; it_dot := 0 |} with LoopInv.start_item.
  destruct (get_closure (fu_closure fu) cx [LoopInv.start_item]) as [start|e|s|s] eqn:Es; cbn [bind];
    [|discriminate 1|discriminate 1|exfalso; exact (nf_oof _ Hn2)].
  destruct (initial_builder_inv cx (fu_closure fu) Hfmok start Es) as (HB & HC).
  apply nf_bind; [|intros b; apply nf_normalize].
  apply (build_loop_terminates cx (fu_closure fu) Hfmok H2 (fu_build fu) _ HB HC).
  unfold potential. cbn [b_states b_queue length]. lia.
Qed.
