(* Build/LoopProofs.v — the worklist construction of the automaton
   (UnnormalizedMachineBuilder::build): basic facts about its pieces. *)
From Coq Require Import List Arith Lia Bool Sorting.Sorted.
From Kiki Require Import Base.Ord Base.OrdProofs Base.Chars Data DataProofs Oset.Model Oset.Proofs Ast.ValidateProofs
  Build.Machine Build.Table Build.TableProofs Build.FillProofs Build.TableSpec Build.ClosureProofs.
Import ListNotations.
Open Scope nat_scope.

Lemma In_skipn_incl {A} n : forall (l : list A) x, In x (skipn n l) -> In x l.
Proof. induction n as [|n IH]; intros [|y l] x H; cbn in *; auto. Qed.

Section Pieces.
  Variable cx : context.
  Notation next_sym := (next_sym cx).
  Notation item_wf := (item_wf cx).
  Notation implied_by := (implied_by cx).
  Notation reach := (reach cx).

  (* ---------- next_sym depends on the core only ---------- *)

  Lemma next_sym_core a b : core_of a = core_of b -> next_sym a = next_sym b.
  Proof. unfold core_of, ClosureProofs.next_sym. intros H; injection H as -> ->. reflexivity. Qed.

  Lemma adv_core a b : core_of a = core_of b -> core_of (adv a) = core_of (adv b).
  Proof. unfold core_of, adv; cbn. intros H; injection H as -> ->. reflexivity. Qed.

  Lemma item_wf_adv it x : item_wf it -> next_sym it = Some x -> item_wf (adv it).
  Proof.
    unfold ClosureProofs.item_wf, ClosureProofs.next_sym, adv; cbn [it_rule it_dot].
    intros (rhs & Hr & Hle). rewrite Hr. intros Hn. exists rhs. split; [reflexivity|].
    assert (it_dot it < length rhs) by (apply nth_error_Some; congruence). lia.
  Qed.

  Lemma implied_by_wf jt x : implied_by jt x -> item_wf x /\ it_dot x = 0 /\ it_rule x <> None.
  Proof.
    intros (rhs & B & r & ru & la & _ & _ & Hru & _ & _ & ->). split; [|split; [reflexivity|discriminate]].
    exists (field_symbols (ru_fieldset ru)). cbn [it_rule it_dot rule_syms]. rewrite Hru. split; [reflexivity|lia].
  Qed.

  Lemma reach_wf K it : (forall k, In k K -> item_wf k) -> reach K it -> item_wf it.
  Proof. intros HK H. destruct H as [it Hin|jt it _ Himp]; [apply HK, Hin|apply (implied_by_wf jt it Himp)]. Qed.

  (* ---------- lookaheads are terminals that occur in the rules ---------- *)

  Definition tok (t : str) : Prop :=
    exists ru, In ru (cx_rules cx) /\ In (SymT t) (field_symbols (ru_fieldset ru)).

  Definition la_ok (it : item) : Prop :=
    match it_la it with None => True | Some t => tok t /\ it_rule it <> None end.

  Definition fm_ok : Prop :=
    forall n fs t, fm_get (cx_first cx) n = Some fs -> In t (fs_terminals fs) -> tok t.

  Definition item_ok (it : item) : Prop := item_wf it /\ la_ok it.

  Lemma fm_get_or_empty_tok n t : fm_ok -> In t (fs_terminals (fm_get_or_empty (cx_first cx) n)) -> tok t.
  Proof.
    intros Hfm. unfold fm_get_or_empty. destruct (fm_get (cx_first cx) n) as [fs|] eqn:E; [apply (Hfm n fs t E)|intros []].
  Qed.

  Lemma first_of_sequence_tok : fm_ok -> forall syms acc t,
      (forall u, In u acc -> tok u) -> (forall u, In (SymT u) syms -> tok u) ->
      In t (fs_terminals (first_of_sequence (cx_first cx) syms acc)) -> tok t.
  Proof.
    intros Hfm. induction syms as [|[u|n] syms IH]; intros acc t Hacc Hsyms; cbn [first_of_sequence fs_terminals].
    - apply Hacc.
    - intros H. apply (oinsert_in str_cmp str_cmp_laws) in H as [->|H]; [apply Hsyms; left; reflexivity|apply Hacc, H].
    - assert (Hacc' : forall u, In u (oextend str_cmp acc (fs_terminals (fm_get_or_empty (cx_first cx) n))) -> tok u).
      { intros u H. apply (oextend_in str_cmp str_cmp_laws) in H as [H|H]; [apply Hacc, H|eapply fm_get_or_empty_tok; eauto]. }
      destruct (fs_eps (fm_get_or_empty (cx_first cx) n)).
      + apply IH; [exact Hacc'|intros u Hu; apply Hsyms; right; exact Hu].
      + cbn [fs_terminals]. apply Hacc'.
  Qed.

  Lemma implied_by_ok jt x : fm_ok -> item_ok jt -> implied_by jt x -> item_ok x.
  Proof.
    intros Hfm (Hwj & Hlj) Hi. split; [apply (implied_by_wf jt x Hi)|].
    destruct Hi as (rhs & B & r & ru & la & Hr & Hn & Hru & _ & Hla & ->). unfold la_ok. cbn [it_la it_rule].
    destruct la as [t|]; [split; [|discriminate]|exact I]. unfold las_of, augmented_first in Hla.
    set (fs := first_of_sequence (cx_first cx) (skipn (S (it_dot jt)) rhs) []) in *.
    assert (Hfs : forall u, In u (fs_terminals fs) -> tok u).
    { intros u Hu. apply (first_of_sequence_tok Hfm (skipn (S (it_dot jt)) rhs) [] u); [intros ? []| |exact Hu].
      intros w Hw. assert (Hin : In (SymT w) rhs) by (eapply (In_skipn_incl); exact Hw).
      unfold rule_syms in Hr. destruct (it_rule jt) as [rj|].
      - destruct (nth_error (cx_rules cx) rj) as [ruj|] eqn:Ej; [|discriminate]. cbn in Hr. injection Hr as <-.
        exists ruj. split; [eapply nth_error_In; eauto|exact Hin].
      - injection Hr as <-. destruct Hin as [E|[]]. discriminate. }
    destruct (fs_eps fs); apply (proj1 (ofrom_iter_in lookahead_cmp lookahead_cmp_laws _ _)) in Hla.
    - apply in_app_or in Hla as [Hla|[Hla|[]]].
      + apply in_map_iff in Hla as (u & E & Hu). injection E as <-. apply Hfs, Hu.
      + unfold la_ok in Hlj. rewrite Hla in Hlj. exact (proj1 Hlj).
    - apply in_map_iff in Hla as (u & E & Hu). injection E as <-. apply Hfs, Hu.
  Qed.

  Lemma reach_ok K it : fm_ok -> (forall k, In k K -> item_ok k) -> reach K it -> item_ok it.
  Proof.
    intros Hfm HK H. induction H as [it Hin|jt it _ IH Himp]; [apply HK, Hin|eapply implied_by_ok; eauto].
  Qed.

  (* ---------- the kernel of a transition ---------- *)

  Definition adv_if (x : symbol) (it : item) : list item :=
    match next_sym it with
    | Some s => if symbol_eqb s x then [adv it] else []
    | None => []
    end.

  Definition advK (st : state) (x : symbol) : list item := flat_map (adv_if x) st.

  Lemma In_advK st x y : In y (advK st x) <-> exists it, In it st /\ next_sym it = Some x /\ y = adv it.
  Proof.
    unfold advK, adv_if. rewrite in_flat_map. split.
    - intros (it & Hin & Hy). destruct (next_sym it) as [s|] eqn:E; [|contradiction].
      destruct (symbol_eqb s x) eqn:Es; [|contradiction]. apply symbol_eqb_eq in Es. subst s.
      destruct Hy as [<-|[]]. eauto.
    - intros (it & Hin & Hn & ->). exists it. split; [exact Hin|]. rewrite Hn.
      replace (symbol_eqb x x) with true by (symmetry; apply symbol_eqb_eq; reflexivity). left. reflexivity.
  Qed.

  Lemma advance_spec x it l : advance cx x it = Ok l -> l = adv_if x it.
  Proof.
    unfold advance, adv_if. intros H. apply bind_ok in H as (o & Ho & H).
    apply symbol_right_of_dot_next in Ho. subst o.
    destruct (next_sym it) as [s|]; [|injection H as <-; reflexivity].
    destruct (symbol_eqb s x); injection H as <-; reflexivity.
  Qed.

  Lemma map_advance_spec x st l : map_res (advance cx x) st = Ok l -> concat l = advK st x.
  Proof.
    intros H. apply map_res_ok in H. unfold advK. induction H as [|it y st l Hy _ IH]; [reflexivity|].
    cbn [concat flat_map]. rewrite IH, (advance_spec x it y Hy). reflexivity.
  Qed.

  Lemma advK_dot st x y : In y (advK st x) -> it_dot y > 0.
  Proof. intros H. apply In_advK in H as (it & _ & _ & ->). cbn. lia. Qed.

  Lemma advK_wf st x : (forall it, In it st -> item_wf it) -> forall y, In y (advK st x) -> item_wf y.
  Proof. intros Hw y H. apply In_advK in H as (it & Hin & Hn & ->). eapply item_wf_adv; eauto. Qed.

  Lemma advK_ok st x : (forall it, In it st -> item_ok it) -> forall y, In y (advK st x) -> item_ok y.
  Proof.
    intros Hw y H. apply In_advK in H as (it & Hin & Hn & ->). destruct (Hw it Hin) as (H1 & H2).
    split; [eapply item_wf_adv; eauto|exact H2].
  Qed.

  Lemma advK_cores st st' x : same_cores st st' ->
    forall y, In y (advK st x) -> exists y', In y' (advK st' x) /\ core_of y' = core_of y.
  Proof.
    intros Hc y H. apply In_advK in H as (it & Hin & Hn & ->).
    assert (Hcin : In (core_of it) (map core_of st')) by (apply Hc, in_map, Hin).
    apply in_map_iff in Hcin as (it' & Hc' & Hin'). exists (adv it'). split.
    - apply In_advK. exists it'. split; [exact Hin'|]. split; [|reflexivity]. rewrite (next_sym_core it' it Hc'). exact Hn.
    - apply adv_core, Hc'.
  Qed.

  (* the cores of the closure of the kernel of (st, x) *)
  Definition tcore (st : state) (x : symbol) (c : option nat * nat) : Prop :=
    exists it, reach (advK st x) it /\ core_of it = c.

  Lemma tcore_stable st st' x c : same_cores st st' -> tcore st x c <-> tcore st' x c.
  Proof.
    intros Hc. split; intros (it & Hr & <-).
    - destruct (reach_core cx (advK st x) (advK st' x) (advK_cores st st' x Hc) it Hr) as (it' & Hr' & Hc'). exists it'. auto.
    - assert (Hc2 : same_cores st' st) by (intros c; symmetry; apply Hc).
      destruct (reach_core cx (advK st' x) (advK st x) (advK_cores st' st x Hc2) it Hr) as (it' & Hr' & Hc'). exists it'. auto.
  Qed.

  (* ---------- cores_equal ---------- *)

  Lemma core_subset_spec a b : core_subset a b = true <-> forall x, In x a -> exists y, In y b /\ core_of x = core_of y.
  Proof.
    unfold core_subset. rewrite forallb_forall. split.
    - intros H x Hx. specialize (H x Hx). apply existsb_exists in H as (y & Hy & Hc). exists y. split; [exact Hy|].
      apply andb_true_iff in Hc as (H1 & H2). unfold is_eq in H1.
      destruct (rule_index_cmp (it_rule x) (it_rule y)) eqn:E; try discriminate.
      apply (ol_eq _ rule_index_cmp_laws) in E. apply Nat.eqb_eq in H2. unfold core_of. congruence.
    - intros H x Hx. destruct (H x Hx) as (y & Hy & Hc). apply existsb_exists. exists y. split; [exact Hy|].
      unfold core_of in Hc. injection Hc as -> ->. rewrite (ol_refl _ rule_index_cmp_laws), Nat.eqb_refl. reflexivity.
  Qed.

  Lemma cores_equal_iff a b : cores_equal a b = true <-> same_cores a b.
  Proof.
    unfold cores_equal, same_cores. rewrite andb_true_iff, !core_subset_spec. split.
    - intros (H1 & H2) c. split; intros Hin; apply in_map_iff in Hin as (x & <- & Hx).
      + destruct (H1 x Hx) as (y & Hy & ->). apply in_map, Hy.
      + destruct (H2 x Hx) as (y & Hy & ->). apply in_map, Hy.
    - intros H. split; intros x Hx.
      + assert (Hin : In (core_of x) (map core_of b)) by (apply H, in_map, Hx).
        apply in_map_iff in Hin as (y & Hc & Hy). eauto.
      + assert (Hin : In (core_of x) (map core_of a)) by (apply H, in_map, Hx).
        apply in_map_iff in Hin as (y & Hc & Hy). eauto.
  Qed.

  Lemma same_cores_refl a : same_cores a a.
  Proof. intros c. tauto. Qed.

  Lemma same_cores_sym a b : same_cores a b -> same_cores b a.
  Proof. intros H c. symmetry. apply H. Qed.

  Lemma same_cores_trans a b c : same_cores a b -> same_cores b c -> same_cores a c.
  Proof. intros H1 H2 x. split; intros H; [apply H2, H1, H|apply H1, H2, H]. Qed.

  Lemma index_of_mergable_some states s : forall k i, index_of_mergable states s k = Some i ->
    exists j e, i = k + j /\ nth_error states j = Some e /\ same_cores s e /\
                forall j' e', j' < j -> nth_error states j' = Some e' -> ~ same_cores s e'.
  Proof.
    induction states as [|e0 states IH]; intros k i H; cbn [index_of_mergable] in H; [discriminate|].
    destruct (cores_equal s e0) eqn:E.
    - injection H as <-. exists 0, e0. split; [lia|]. split; [reflexivity|]. split; [apply cores_equal_iff, E|]. intros j' e' Hlt; lia.
    - destruct (IH (S k) i H) as (j & e & -> & Hn & Hc & Hmin). exists (S j), e. split; [lia|]. split; [exact Hn|]. split; [exact Hc|].
      intros [|j'] e' Hlt Hn'; cbn in Hn'.
      + injection Hn' as <-. intros Hsc. apply cores_equal_iff in Hsc. congruence.
      + apply (Hmin j' e'); [lia|exact Hn'].
  Qed.

  Lemma index_of_mergable_none states s : forall k, index_of_mergable states s k = None ->
    forall j e, nth_error states j = Some e -> ~ same_cores s e.
  Proof.
    induction states as [|e0 states IH]; intros k H j e Hn; [destruct j; discriminate|].
    cbn [index_of_mergable] in H. destruct (cores_equal s e0) eqn:E; [discriminate|].
    destruct j as [|j]; cbn in Hn.
    - injection Hn as <-. intros Hsc. apply cores_equal_iff in Hsc. congruence.
    - apply (IH (S k) H j e Hn).
  Qed.

  (* ---------- add_items ---------- *)

  Lemma add_items_spec items : forall st added st' added',
      add_items st items added = (st', added') -> isorted st ->
      isorted st' /\ (forall x, In x st' <-> In x st \/ In x items) /\
      (added' = false -> added = false /\ st' = st) /\ (added = true -> added' = true).
  Proof.
    induction items as [|it items IH]; intros st added st' added' H Hs; cbn [add_items] in H.
    - injection H as <- <-. split; [exact Hs|]. split; [intros x; cbn; tauto|]. split; [auto|auto].
    - destruct (ocontains item_cmp it st) eqn:E.
      + apply (ocontains_item it st Hs) in E. destruct (IH _ _ _ _ H Hs) as (Hs' & Hin & Hf & Ht).
        split; [exact Hs'|]. split; [|split; [exact Hf|exact Ht]].
        intros x. rewrite Hin. cbn [In]. split; [tauto|]. intros [Hx|[<-|Hx]]; auto.
      + destruct (IH _ _ _ _ H (oinsert_item_sorted it st Hs)) as (Hs' & Hin & Hf & Ht).
        split; [exact Hs'|]. split; [|split].
        * intros x. rewrite Hin, oinsert_item_in. cbn [In]. split; [intros [[->|Hx]|Hx]; auto|intros [Hx|[<-|Hx]]; auto].
        * intros Hfalse. destruct (Hf Hfalse) as (Habs & _). discriminate.
        * intros _. apply Ht. reflexivity.
  Qed.

  (* ---------- list updates ---------- *)

  Lemma nth_error_list_set {A} (l : list A) i x j :
    nth_error (list_set l i x) j = if Nat.eqb i j then (if Nat.ltb i (length l) then Some x else None) else nth_error l j.
  Proof.
    destruct (Nat.eqb_spec i j) as [->|Hne].
    - destruct (Nat.ltb_spec j (length l)) as [Hlt|Hge].
      + apply nth_error_list_set_eq, Hlt.
      + apply nth_error_None. rewrite list_set_length. exact Hge.
    - apply nth_error_list_set_neq, Hne.
  Qed.

  Lemma nth_error_snoc {A} (l : list A) x j :
    nth_error (l ++ [x]) j = if Nat.eqb j (length l) then Some x else nth_error l j.
  Proof.
    destruct (Nat.eqb_spec j (length l)) as [->|Hne].
    - rewrite nth_error_app2 by lia. rewrite Nat.sub_diag. reflexivity.
    - destruct (Nat.lt_ge_cases j (length l)) as [Hlt|Hge].
      + apply nth_error_app1, Hlt.
      + rewrite nth_error_app2 by lia. destruct (j - length l) as [|[|k]] eqn:E; try lia; cbn.
        * symmetry. apply nth_error_None. lia.
        * symmetry. apply nth_error_None. lia.
  Qed.

  (* ---------- symbols right of the dot ---------- *)

  Lemma symbols_right_of_dot_spec st syms : symbols_right_of_dot cx st = Ok syms ->
    forall x, In x syms <-> exists it, In it st /\ next_sym it = Some x.
  Proof.
    unfold symbols_right_of_dot. intros H. apply bind_ok in H as (l & Hl & H). injection H as <-.
    apply map_res_ok in Hl. intros x. rewrite (ofrom_iter_in symbol_cmp symbol_cmp_laws), in_flat_map. split.
    - intros (o & Ho & Hx). destruct o as [s|]; [|contradiction]. destruct Hx as [<-|[]].
      clear -Hl Ho. induction Hl as [|it y st l Hy _ IH]; [contradiction|].
      destruct Ho as [<-|Ho].
      + exists it. split; [left; reflexivity|]. symmetry. apply symbol_right_of_dot_next, Hy.
      + destruct (IH Ho) as (it' & Hin & Hn). exists it'. split; [right; exact Hin|exact Hn].
    - intros (it & Hin & Hn). exists (Some x). split; [|left; reflexivity].
      clear -Hl Hin Hn. induction Hl as [|it0 y st l Hy _ IH]; [contradiction|].
      destruct Hin as [<-|Hin].
      + left. apply symbol_right_of_dot_next in Hy. congruence.
      + right. apply IH, Hin.
  Qed.
End Pieces.
