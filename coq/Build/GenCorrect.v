(* Build/GenCorrect.v — the tables the generator emits satisfy the LR invariants
   (LR/Inv.v: Inv, Inv2, FirstOK) for EVERY validated grammar it accepts: the item sets
   of the machine, translated to positions, are an annotation of the driver tables.
   Hence (LR/Complete.v, LR/Sound.v, LR/ErrPos.v) every emitted parser accepts exactly
   the language of its grammar, never panics, and rejects at the first bad token. *)
From Coq Require Import List Arith Lia Bool Sorting.Sorted Permutation.
From Kiki Require Import Base.Ord Base.OrdProofs Base.Chars Data DataProofs Oset.Model Oset.Proofs Ast.ValidateProofs Ast.VWF
  LR.Driver LR.Grammar LR.Inv LR.Viable LR.Least LR.Validate LR.ValidateProofs
  Build.Machine Build.Table Build.TableProofs Build.FillProofs Build.TableSpec Build.ClosureProofs Build.LoopProofs
  Build.LoopInv Build.NormProofs Build.MachineSpec Build.DerProofs Build.FirstProofs Build.FirstLeast Build.CanonMachine LR.FirstExact Emit.Parser Emit.PtableProofs.
Import ListNotations.
Open Scope nat_scope.

Lemma fieldset_len_symbols fs : fieldset_len fs = length (field_symbols fs).
Proof. destruct fs; cbn; [reflexivity|rewrite map_length; reflexivity|rewrite map_length; reflexivity]. Qed.

Lemma field_used_length fs : length (field_used fs) = length (field_symbols fs).
Proof. destruct fs; cbn; [reflexivity|rewrite !map_length; reflexivity|rewrite !map_length; reflexivity]. Qed.

Lemma position_str_nodup l : NoDup l -> forall k x, nth_error l k = Some x -> position_str x l = Some k.
Proof.
  induction 1 as [|y l Hy _ IH]; intros [|k] x H; cbn in *; try discriminate.
  - injection H as ->. rewrite str_eqb_refl. reflexivity.
  - destruct (str_eqb x y) eqn:E.
    + apply str_eqb_eq in E. subst. exfalso. apply Hy. eapply nth_error_In; eauto.
    + rewrite (IH k x H). reflexivity.
Qed.

Lemma nth_map_default {A B} (g : A -> B) l k a d : nth_error l k = Some a -> nth k (map g l) d = g a.
Proof. intros H. apply nth_error_nth. rewrite nth_error_map, H. reflexivity. Qed.

Section Gen.
  Variable v : vfile.
  Variable cx : context.
  Variable m : machine.
  Variable t : table.
  Variable pt : ptable.
  Hypothesis HV : VWF v.
  Hypothesis Hcx_rules : cx_rules cx = get_rules v.
  Hypothesis Hcx_start : cx_start cx = vf_start v.
  Hypothesis HFI : FInv (get_rules v) (cx_first cx).
  Hypothesis HFC : forall ru, In ru (get_rules v) -> rule_closed (cx_first cx) ru.
  Hypothesis HFJ : Just (get_rules v) (cx_first cx).
  Hypothesis HM : MInv cx m.
  Hypothesis HT : table_spec m v t.
  Hypothesis HP : ptable_of v t = Some pt.

  Notation tn := (v_tnames v).
  Notation nn := (v_nnames v).
  Notation rules := (get_rules v).
  Notation fm := (cx_first cx).
  Notation ns := (length (m_states m)).
  Notation ntm := (length (v_tnames v)).
  Notation nnt := (length (v_nnames v)).

  Lemma Hnn : nn <> [].
  Proof. intros E. pose proof (vw_start v HV) as H. rewrite E in H. destruct H. Qed.

  Definition R (s : symbol) (p : psym) : Prop := psym_of v s = Some p.

  Lemma R_fun s p p' : R s p -> R s p' -> p = p'.
  Proof. unfold R. congruence. Qed.

  Lemma R_inj s s' p : R s p -> R s' p -> s = s'.
  Proof.
    unfold R, psym_of. fold tn nn. destruct s as [a|a], s' as [b|b].
    - destruct (position_str a tn) eqn:E1; [|discriminate]. destruct (position_str b tn) eqn:E2; [|discriminate]. cbn.
      intros H1 H2. injection H1 as <-. injection H2 as <-. f_equal. eapply position_str_inj; eauto.
    - destruct (position_str a tn); [|discriminate]. destruct (position_str b nn); [|discriminate]. cbn. congruence.
    - destruct (position_str a nn); [|discriminate]. destruct (position_str b tn); [|discriminate]. cbn. congruence.
    - destruct (position_str a nn) eqn:E1; [|discriminate]. destruct (position_str b nn) eqn:E2; [|discriminate]. cbn.
      intros H1 H2. injection H1 as <-. injection H2 as <-. f_equal. eapply position_str_inj; eauto.
  Qed.

  Lemma R_declared s : sym_declared v s -> exists p, R s p.
  Proof.
    unfold R, psym_of. fold tn nn. destruct s as [a|a]; cbn; intros H; apply position_str_In in H as (k & ->); cbn; eauto.
  Qed.

  (* ---------- the tables ---------- *)

  Let Hshape := ts_shape m v t HT.
  Let Hterms : tb_terminals t = tn := ts_terminals m v t HT.
  Let Hnts : tb_nonterminals t = nn := ts_nonterminals m v t HT.

  Lemma pt_fields :
    pt_start pt = m_start m /\ position_str (vf_start v) nn = Some (pt_start_nt pt) /\
    pt_nterm pt = ntm /\ Parser.all_some (map (prule_of v) rules) = Some (pt_rules pt).
  Proof.
    destruct (ptable_fields v t pt ns Hshape Hterms Hnts Hnn HP) as (A & B & C & _ & _ & D).
    rewrite (ts_start m v t HT) in A. auto.
  Qed.

  Lemma prules_rel : Forall2 (fun ru pru => prule_of v ru = Some pru) rules (pt_rules pt).
  Proof.
    destruct pt_fields as (_ & _ & _ & H). apply pall_some_Forall2 in H. apply Forall2_map_l in H. exact H.
  Qed.

  Lemma prule_parts ru pru : prule_of v ru = Some pru ->
    position_str (ru_type ru) nn = Some (pr_lhs pru) /\ Forall2 R (field_symbols (ru_fieldset ru)) (pr_rhs pru) /\
    pr_used pru = field_used (ru_fieldset ru).
  Proof.
    unfold prule_of. fold nn. destruct (position_str (ru_type ru) nn) as [lhs|]; [|discriminate].
    destruct (Parser.all_some (map (psym_of v) (field_symbols (ru_fieldset ru)))) as [rhs|] eqn:E; [|discriminate].
    intros H; injection H as <-. cbn. split; [reflexivity|]. split; [|reflexivity].
    apply pall_some_Forall2 in E. apply Forall2_map_l in E. exact E.
  Qed.

  (* right-hand sides, by name and by position *)
  Lemma rhs_rel_l o syms : rule_syms cx o = Some syms -> exists ps, rhs_of pt o = Some ps /\ Forall2 R syms ps.
  Proof.
    unfold rule_syms, rhs_of. destruct o as [r|].
    - rewrite Hcx_rules. destruct (nth_error rules r) as [ru|] eqn:E; [|discriminate]. cbn. intros H; injection H as <-.
      destruct (Forall2_nth_l _ _ _ prules_rel r ru E) as (pru & Hp & Hpr). rewrite Hp. cbn.
      exists (pr_rhs pru). split; [reflexivity|apply (prule_parts ru pru Hpr)].
    - intros H; injection H as <-. exists [PN (pt_start_nt pt)]. split; [reflexivity|]. constructor; [|constructor].
      unfold R, psym_of. fold nn. rewrite Hcx_start. destruct pt_fields as (_ & -> & _). reflexivity.
  Qed.

  Lemma rhs_rel_r o ps : rhs_of pt o = Some ps -> exists syms, rule_syms cx o = Some syms /\ Forall2 R syms ps.
  Proof.
    unfold rule_syms, rhs_of. destruct o as [r|].
    - rewrite Hcx_rules. destruct (nth_error (pt_rules pt) r) as [pru|] eqn:E; [|discriminate]. cbn. intros H; injection H as <-.
      destruct (Forall2_nth_r _ _ _ prules_rel r pru E) as (ru & Hr & Hpr). rewrite Hr. cbn.
      exists (field_symbols (ru_fieldset ru)). split; [reflexivity|apply (prule_parts ru pru Hpr)].
    - intros H; injection H as <-. exists [SymN (cx_start cx)]. split; [reflexivity|]. constructor; [|constructor].
      unfold R, psym_of. fold nn. rewrite Hcx_start. destruct pt_fields as (_ & -> & _). reflexivity.
  Qed.

  (* ---------- items ---------- *)

  Definition tix (u : str) : nat := match position_str u tn with Some i => i | None => 0 end.
  Definition la_tr (la : option str) : option nat := option_map tix la.
  Definition tr (it : Data.item) : Grammar.item :=
    {| irule := it_rule it; idot := it_dot it; ila := la_tr (it_la it) |}.

  Definition ann : list (list Grammar.item) := map (map tr) (m_states m).

  Lemma ann_length : length ann = ns.
  Proof. apply map_length. Qed.

  Lemma In_state_iff it s : In_state ann it s <-> exists st it0, nth_error (m_states m) s = Some st /\ In it0 st /\ it = tr it0.
  Proof.
    unfold In_state, items, ann. split.
    - intros H. destruct (nth_error (m_states m) s) as [st|] eqn:E.
      + rewrite (nth_map_default (map tr) _ _ st [] E) in H. apply in_map_iff in H as (it0 & <- & Hin). eauto.
      + rewrite nth_overflow in H; [destruct H|]. rewrite map_length. apply nth_error_None, E.
    - intros (st & it0 & E & Hin & ->). rewrite (nth_map_default (map tr) _ _ st [] E). apply in_map, Hin.
  Qed.

  Lemma tr_adv it : tr (ClosureProofs.adv it) = Grammar.adv (tr it).
  Proof. reflexivity. Qed.

  Lemma after_dot_tr it syms : rule_syms cx (it_rule it) = Some syms -> it_dot it <= length syms ->
    exists ps, rhs_of pt (it_rule it) = Some ps /\ Forall2 R syms ps /\ after_dot pt (tr it) = Some (skipn (it_dot it) ps).
  Proof.
    intros Hr Hd. destruct (rhs_rel_l _ _ Hr) as (ps & Hps & HR). exists ps. split; [exact Hps|]. split; [exact HR|].
    unfold after_dot. cbn [tr irule idot]. rewrite Hps. rewrite <- (Forall2_length _ _ _ HR).
    replace (it_dot it <=? length syms) with true by (symmetry; apply Nat.leb_le; exact Hd). reflexivity.
  Qed.

  Lemma skipn_nth_cons {A} (l : list A) d x rest : skipn d l = x :: rest -> nth_error l d = Some x /\ skipn (S d) l = rest.
  Proof.
    revert l; induction d as [|d IH]; intros [|y l] H; cbn in *; try discriminate.
    - injection H as -> ->. auto.
    - apply IH, H.
  Qed.

  Lemma nth_skipn_cons {A} (l : list A) d x : nth_error l d = Some x -> skipn d l = x :: skipn (S d) l.
  Proof. revert l; induction d as [|d IH]; intros [|y l] H; cbn in *; try discriminate; [injection H as ->; reflexivity|apply IH, H]. Qed.

  (* an item of a state, its rule by name and by position *)
  Lemma item_view s st it0 : nth_error (m_states m) s = Some st -> In it0 st ->
    exists syms ps, rule_syms cx (it_rule it0) = Some syms /\ it_dot it0 <= length syms /\
                    rhs_of pt (it_rule it0) = Some ps /\ Forall2 R syms ps /\
                    after_dot pt (tr it0) = Some (skipn (it_dot it0) ps).
  Proof.
    intros Hs Hin. destruct (mi_states cx m HM s st Hs) as (_ & _ & Hok & _).
    destruct (Hok it0 Hin) as ((syms & Hr & Hd) & _). destruct (after_dot_tr it0 syms Hr Hd) as (ps & A & B & C).
    exists syms, ps. auto.
  Qed.

  Lemma state_lt s st : nth_error (m_states m) s = Some st -> s < ns.
  Proof. intros H. apply nth_error_Some. congruence. Qed.

  (* ---------- transitions and the cells the driver follows ---------- *)

  Lemma get_shift_dest_some s u d : get_shift_dest m s u = Some d ->
    exists trn, In trn (m_transitions m) /\ tr_from trn = s /\ tr_symbol trn = SymT u /\ tr_to trn = d.
  Proof.
    unfold get_shift_dest. destruct (find _ (m_transitions m)) as [trn|] eqn:E; [|discriminate]. cbn. intros H; injection H as <-.
    apply find_some in E as (Hin & Hb). apply andb_true_iff in Hb as (H1 & H2). apply Nat.eqb_eq in H1. apply symbol_eqb_eq in H2. eauto.
  Qed.

  Lemma get_shift_dest_trans trn u : In trn (m_transitions m) -> tr_symbol trn = SymT u ->
    get_shift_dest m (tr_from trn) u = Some (tr_to trn).
  Proof.
    intros Hin Hs. unfold get_shift_dest.
    destruct (find (fun x => Nat.eqb (tr_from x) (tr_from trn) && symbol_eqb (tr_symbol x) (SymT u)) (m_transitions m)) as [trn'|] eqn:E.
    - cbn. apply find_some in E as (Hin' & Hb). apply andb_true_iff in Hb as (H1 & H2). apply Nat.eqb_eq in H1. apply symbol_eqb_eq in H2.
      f_equal. apply (mi_det cx m HM trn' trn Hin' Hin H1). congruence.
    - exfalso. pose proof (find_none _ _ E trn Hin) as Hb. cbn in Hb. rewrite Nat.eqb_refl in Hb. cbn in Hb.
      rewrite Hs in Hb. assert (symbol_eqb (SymT u) (SymT u) = true) by (apply symbol_eqb_eq; reflexivity). congruence.
  Qed.

  Lemma next_sym_rule it0 syms x : rule_syms cx (it_rule it0) = Some syms -> nth_error syms (it_dot it0) = Some x ->
    (it_rule it0 = None /\ x = SymN (cx_start cx)) \/
    exists r ru, it_rule it0 = Some r /\ nth_error rules r = Some ru /\ syms = field_symbols (ru_fieldset ru).
  Proof.
    unfold rule_syms. destruct (it_rule it0) as [r|].
    - rewrite Hcx_rules. destruct (nth_error rules r) as [ru|] eqn:E; [|discriminate]. cbn. intros H _; injection H as <-. right. eauto.
    - intros H; injection H as <-. intros Hn. left. split; [reflexivity|]. destruct (it_dot it0) as [|[|d]]; cbn in Hn; congruence.
  Qed.

  Lemma trans_goto_sym trn st it0 x : In trn (m_transitions m) ->
    nth_error (m_states m) (tr_from trn) = Some st -> In it0 st -> next_sym cx it0 = Some (tr_symbol trn) ->
    R (tr_symbol trn) x -> goto_sym pt (tr_from trn) x = Some (tr_to trn).
  Proof.
    intros Hin Hst Hit Hn HR. destruct (item_view _ _ _ Hst Hit) as (syms & ps & Hr & Hd & _).
    unfold next_sym in Hn. rewrite Hr in Hn. unfold R, psym_of in HR. fold tn nn in HR.
    destruct (tr_symbol trn) as [u|n] eqn:Es.
    - destruct (position_str u tn) as [c|] eqn:Ec; [|discriminate]. cbn in HR. injection HR as <-.
      destruct (next_sym_rule it0 syms _ Hr Hn) as [(_ & E)|(r & ru & Hr0 & Hru & ->)]; [discriminate|].
      assert (Hdem : demands m v (tr_from trn) it0 (Some u) (AShift (tr_to trn))).
      { eapply dm_shift; eauto.
        - rewrite fieldset_len_symbols. assert (it_dot it0 < length (field_symbols (ru_fieldset ru))) by (apply nth_error_Some; congruence). lia.
        - apply get_shift_dest_trans; assumption. }
      pose proof (ts_demand m v t HT _ _ _ _ (ex_intro _ st (conj Hst Hit)) Hdem) as Hta.
      apply (get_action_table v t pt ns Hshape Hterms Hnts Hnn HP (tr_from trn) (Some u) c) in Hta; [|exact Ec].
      cbn [goto_sym]. rewrite Hta. reflexivity.
    - destruct (position_str n nn) as [c|] eqn:Ec; [|discriminate]. cbn in HR. injection HR as <-.
      pose proof (ts_goto m v t HT trn n Hin Es) as Htg.
      destruct (proj2 (get_goto_table v t pt ns Hshape Hterms Hnts Hnn HP (tr_from trn) n c (GState (tr_to trn)) Ec)) as (Hg & _).
      { exists (GState (tr_to trn)). auto. }
      cbn [goto_sym]. rewrite Hg. reflexivity.
  Qed.

  Lemma goto_sym_trans s x s' : goto_sym pt s x = Some s' ->
    exists trn, In trn (m_transitions m) /\ tr_from trn = s /\ tr_to trn = s' /\ R (tr_symbol trn) x.
  Proof.
    destruct x as [c|c]; cbn [goto_sym].
    - destruct (get_action pt s c) as [[d| | |]|] eqn:Ea; try discriminate. intros H; injection H as <-.
      destruct (get_action_row v t pt ns Hshape Hterms Hnts Hnn HP s c _ Ea) as (Hs & Hc).
      assert (Hcell : exists q, qcol tn q = Some c).
      { destruct (Nat.eq_dec c ntm) as [->|Hne]; [exists None; reflexivity|].
        destruct (nth_error tn c) as [u|] eqn:Eu; [|apply nth_error_None in Eu; lia].
        exists (Some u). cbn. apply position_str_nodup; [apply (vw_ts v HV)|exact Eu]. }
      destruct Hcell as (q & Hq).
      apply (get_action_table v t pt ns Hshape Hterms Hnts Hnn HP s q c) in Ea; [|exact Hq].
      destruct (ts_cell m v t HT s q _ Ea ltac:(discriminate)) as (it0 & _ & Hdem).
      inversion Hdem as [| |r ru u dest Hr Hru Hd Hsym Hg]; subst.
      apply get_shift_dest_some in Hg as (trn & Hin & Hf & Hsy & Ht). exists trn. repeat (split; [assumption|]).
      rewrite Hsy. unfold R, psym_of. fold tn. cbn in Hq. rewrite Hq. reflexivity.
    - destruct (get_goto pt s c) as [[d|]|] eqn:Eg; try discriminate. intros H; injection H as <-.
      destruct (get_goto_row v t pt ns Hshape Hterms Hnts Hnn HP s c _ Eg) as (Hs & Hc).
      destruct (nth_error nn c) as [n|] eqn:En; [|apply nth_error_None in En; lia].
      assert (Hpos : position_str n nn = Some c) by (apply position_str_nodup; [apply (vw_nts v HV)|exact En]).
      destruct (proj1 (get_goto_table v t pt ns Hshape Hterms Hnts Hnn HP s n c (GState d) Hpos) (conj Eg Hs)) as (g' & Htg & Hg').
      destruct g' as [d'|]; cbn in Hg'; [|discriminate]. injection Hg' as ->.
      destruct (ts_goto_cell m v t HT s n d Htg) as (trn & Hin & Hf & Hsy & Ht). exists trn. repeat (split; [assumption|]).
      rewrite Hsy. unfold R, psym_of. fold nn. rewrite Hpos. reflexivity.
  Qed.

  (* ---------- the FIRST table, by position ---------- *)

  Definition ft : first_table :=
    map (fun n => (map tix (fs_terminals (fm_get_or_empty fm n)), fs_eps (fm_get_or_empty fm n))) nn.

  Lemma ft_at n c : position_str n nn = Some c ->
    first_of ft c = map tix (fs_terminals (fm_get_or_empty fm n)) /\ nullable_of ft c = fs_eps (fm_get_or_empty fm n).
  Proof.
    intros H. apply position_str_nth in H. unfold first_of, nullable_of, ft.
    rewrite (nth_map_default _ nn c n _ H). auto.
  Qed.

  Lemma R_T u p : R (SymT u) p -> exists c, p = PT c /\ position_str u tn = Some c /\ tix u = c.
  Proof.
    unfold R, psym_of, tix. fold tn. destruct (position_str u tn) as [c|]; [|discriminate]. cbn. intros H; injection H as <-. eauto.
  Qed.

  Lemma R_N n p : R (SymN n) p -> exists c, p = PN c /\ position_str n nn = Some c.
  Proof.
    unfold R, psym_of. fold nn. destruct (position_str n nn) as [c|]; [|discriminate]. cbn. intros H; injection H as <-. eauto.
  Qed.

  Lemma first_seq_rel syms ps : Forall2 R syms ps ->
    first_seq_list ft ps = map tix (fterms fm syms) /\ nullable_seq ft ps = fnull fm syms.
  Proof.
    induction 1 as [|sy p syms ps Hsp _ (IH1 & IH2)]; [split; reflexivity|]. destruct sy as [u|n].
    - apply R_T in Hsp as (c & -> & _ & Hc). cbn. rewrite Hc. auto.
    - apply R_N in Hsp as (c & -> & Hc). destruct (ft_at n c Hc) as (Hf & Hnl).
      cbn [first_seq_list fterms]. unfold nullable_seq, fnull in *. cbn [forallb nullable_sym sym_null].
      rewrite Hf, Hnl, map_app. split; [|rewrite IH2; reflexivity].
      destruct (fs_eps (fm_get_or_empty fm n)); [rewrite IH1; reflexivity|reflexivity].
  Qed.

  Lemma ft_closed : first_closed ft (pt_rules pt) = true.
  Proof.
    unfold first_closed. apply forallb_forall. intros pru Hin. apply In_nth_error in Hin as (r & Hr).
    destruct (Forall2_nth_r _ _ _ prules_rel r pru Hr) as (ru & Hru & Hpr).
    destruct (prule_parts ru pru Hpr) as (Hlhs & Hrhs & _). destruct (first_seq_rel _ _ Hrhs) as (Hf & Hn).
    destruct (HFC ru (nth_error_In _ _ Hru)) as (old & Hold & Hincl & Heps).
    destruct (ft_at _ _ Hlhs) as (Hfo & Hno). unfold fm_get_or_empty in Hfo, Hno. rewrite Hold in Hfo, Hno.
    unfold Validate.rule_closed. apply andb_true_iff. split.
    - apply forallb_forall. intros c Hc. apply mem_nat_In. rewrite Hfo. rewrite Hf in Hc.
      apply in_map_iff in Hc as (u & <- & Hu). apply in_map, Hincl, Hu.
    - rewrite Hn, Hno. destruct (fnull fm (field_symbols (ru_fieldset ru))); [rewrite Heps; reflexivity|reflexivity].
  Qed.

  (* the FIRST table is the least one: every entry is justified by the rules, by position *)
  Lemma nder_pnull :
    (forall n, nder rules n -> forall c, position_str n nn = Some c -> pnull pt c) /\
    (forall syms, nders rules syms -> forall ps, Forall2 R syms ps -> pnulls pt ps).
  Proof.
    apply nder_nders_mind.
    - intros ru Hin _ IH c Hc. apply In_nth_error in Hin as (r & Hr).
      destruct (Forall2_nth_l _ _ _ prules_rel r ru Hr) as (pru & Hp & Hpr).
      destruct (prule_parts ru pru Hpr) as (Hlhs & Hrhs & _). rewrite Hlhs in Hc. injection Hc as <-.
      apply (pn_rule pt r pru Hp). apply IH, Hrhs.
    - intros ps H. inversion H. constructor.
    - intros n r _ IH1 _ IH2 ps H. inversion H as [|? p ? ps' Hp Hps]; subst.
      apply R_N in Hp as (c & -> & Hc). constructor; [apply IH1, Hc|apply IH2, Hps].
  Qed.

  Lemma fder_pfirst :
    (forall n u, fder rules n u -> forall c, position_str n nn = Some c -> pfirst pt c (tix u)) /\
    (forall syms u, fders rules syms u -> forall ps, Forall2 R syms ps -> pfirsts pt ps (tix u)).
  Proof.
    apply fder_fders_mind.
    - intros ru u Hin _ IH c Hc. apply In_nth_error in Hin as (r & Hr).
      destruct (Forall2_nth_l _ _ _ prules_rel r ru Hr) as (pru & Hp & Hpr).
      destruct (prule_parts ru pru Hpr) as (Hlhs & Hrhs & _). rewrite Hlhs in Hc. injection Hc as <-.
      apply (pf_rule pt r pru _ Hp). apply IH, Hrhs.
    - intros u r ps H. inversion H as [|? p ? ps' Hp Hps]; subst. apply R_T in Hp as (c & -> & _ & <-). constructor.
    - intros n r u _ IH ps H. inversion H as [|? p ? ps' Hp Hps]; subst.
      apply R_N in Hp as (c & -> & Hc). apply pfs_here. apply IH, Hc.
    - intros n r u Hn _ IH ps H. inversion H as [|? p ? ps' Hp Hps]; subst.
      apply R_N in Hp as (c & -> & Hc). apply pfs_skip; [apply (proj1 nder_pnull n Hn c Hc)|apply IH, Hps].
  Qed.

  Lemma ft_least : FirstLeast pt ft.
  Proof.
    assert (Hpos : forall c, c < nnt -> exists n, position_str n nn = Some c).
    { intros c Hc. destruct (nth_error nn c) as [n|] eqn:En; [|apply nth_error_None in En; lia].
      exists n. apply position_str_nodup; [apply (vw_nts v HV)|exact En]. }
    assert (Hout : forall c, nnt <= c -> nth c ft ([], false) = ([], false)).
    { intros c Hc. apply nth_overflow. unfold ft. rewrite map_length. exact Hc. }
    split.
    - intros c t0 Hin. destruct (Nat.lt_ge_cases c nnt) as [Hc|Hc].
      + destruct (Hpos c Hc) as (n & Hn). destruct (ft_at n c Hn) as (Hf & _). rewrite Hf in Hin.
        apply in_map_iff in Hin as (u & <- & Hu).
        apply (proj1 fder_pfirst n u); [|exact Hn]. apply (just_or_empty rules fm n HFJ), Hu.
      + unfold first_of in Hin. rewrite (Hout c Hc) in Hin. destruct Hin.
    - intros c Hnl. destruct (Nat.lt_ge_cases c nnt) as [Hc|Hc].
      + destruct (Hpos c Hc) as (n & Hn). destruct (ft_at n c Hn) as (_ & Hf). rewrite Hf in Hnl.
        apply (proj1 nder_pnull n); [|exact Hn]. apply (just_or_empty rules fm n HFJ), Hnl.
      + unfold nullable_of in Hnl. rewrite (Hout c Hc) in Hnl. discriminate.
  Qed.

  (* the candidates of the closure, by position, come from the lookaheads by name *)
  Lemma cands_rel syms ps la a : Forall2 R syms ps -> In a (cands ft ps (la_tr la)) ->
    exists a0, la_tr a0 = a /\ In a0 (augmented_first (first_of_sequence fm syms []) la).
  Proof.
    intros HR Hin. destruct (first_seq_rel _ _ HR) as (Hf & Hn).
    destruct (first_of_sequence_spec fm syms []) as (Hterms' & Heps).
    unfold cands in Hin. rewrite Hf, Hn in Hin. unfold augmented_first. rewrite Heps.
    apply in_app_or in Hin as [Hin|Hin].
    - apply in_map_iff in Hin as (c & <- & Hc). apply in_map_iff in Hc as (u & <- & Hu). exists (Some u). split; [reflexivity|].
      assert (Hu' : In (Some u) (map Some (fs_terminals (first_of_sequence fm syms [])))) by (apply in_map, Hterms'; right; exact Hu).
      destruct (fnull fm syms); apply (ofrom_iter_in lookahead_cmp lookahead_cmp_laws); [apply in_or_app; left|]; exact Hu'.
    - destruct (fnull fm syms); [|destruct Hin]. destruct Hin as [<-|[]]. exists la. split; [reflexivity|].
      apply (ofrom_iter_in lookahead_cmp lookahead_cmp_laws). apply in_or_app. right. left. reflexivity.
  Qed.

  (* ---------- the completeness invariant ---------- *)

  Theorem gen_Inv : Inv pt ann (fseq ft).
  Proof.
    destruct pt_fields as (Hstart & Hsnt & Hnterm & _). split.
    - (* start *)
      destruct (mi_start cx m HM) as (st0 & Hs0 & Hin & _). rewrite Hstart. apply In_state_iff. exists st0, LoopInv.start_item. auto.
    - (* closure *)
      intros s it B rest r pru a Hin Had Hr Hlhs Hfs. apply In_state_iff in Hin as (st & it0 & Hst & Hit & ->).
      destruct (item_view _ _ _ Hst Hit) as (syms & ps & Hrs & Hd & Hps & HR & Had'). rewrite Had' in Had. injection Had as Had.
      apply skipn_nth_cons in Had as (Hnth & Hrest).
      destruct (Forall2_nth_r _ _ _ HR _ _ Hnth) as (sy & Hsy & HsyR).
      destruct (Forall2_nth_r _ _ _ prules_rel r pru Hr) as (ru & Hru & Hpr). destruct (prule_parts ru pru Hpr) as (Hl & _ & _).
      assert (Esy : sy = SymN (ru_type ru)).
      { apply (R_inj sy (SymN (ru_type ru)) (PN B) HsyR). unfold R, psym_of. fold nn. rewrite Hl, Hlhs. reflexivity. }
      subst sy. apply fseq_elim in Hfs. cbn [tr ila] in Hfs.
      assert (HRrest : Forall2 R (skipn (S (it_dot it0)) syms) rest) by (rewrite <- Hrest; apply Forall2_skipn, HR).
      destruct (cands_rel _ _ _ _ HRrest Hfs) as (a0 & <- & Ha0).
      destruct (mi_states cx m HM s st Hst) as (_ & Hclosed & _).
      apply In_state_iff. exists st, {| it_rule := Some r; it_la := a0; it_dot := 0 |}. split; [exact Hst|]. split; [|reflexivity].
      apply (Hclosed it0 _ Hit). exists syms, (ru_type ru), r, ru, a0. rewrite Hcx_rules. repeat (split; [try assumption; try reflexivity|]). reflexivity.
    - (* goto *)
      intros s it x rest Hin Had. apply In_state_iff in Hin as (st & it0 & Hst & Hit & ->).
      destruct (item_view _ _ _ Hst Hit) as (syms & ps & Hrs & Hd & Hps & HR & Had'). rewrite Had' in Had. injection Had as Had.
      apply skipn_nth_cons in Had as (Hnth & _). destruct (Forall2_nth_r _ _ _ HR _ _ Hnth) as (sy & Hsy & HsyR).
      assert (Hn : next_sym cx it0 = Some sy) by (unfold next_sym; rewrite Hrs; exact Hsy).
      destruct (mi_goto cx m HM s st it0 sy Hst Hit Hn) as (trn & st' & Htin & Hf & Hs & Hst' & Hadv). subst s.
      exists (tr_to trn). split.
      + eapply trans_goto_sym; eauto; rewrite Hs; assumption.
      + apply In_state_iff. exists st', (ClosureProofs.adv it0). auto.
    - (* reduce *)
      intros s it r Hin Hr Had. apply In_state_iff in Hin as (st & it0 & Hst & Hit & ->). cbn [tr irule] in Hr.
      destruct (item_view _ _ _ Hst Hit) as (syms & ps & Hrs & Hd & Hps & HR & Had'). rewrite Had' in Had. injection Had as Had.
      assert (Hdot : it_dot it0 = length syms).
      { pose proof (Forall2_length _ _ _ HR) as Hl. assert (length (skipn (it_dot it0) ps) = 0) by (rewrite Had; reflexivity).
        rewrite skipn_length in H. lia. }
      rewrite Hr in Hrs. cbn [rule_syms] in Hrs. rewrite Hcx_rules in Hrs.
      destruct (nth_error rules r) as [ru|] eqn:Eru; [|discriminate]. cbn in Hrs. injection Hrs as <-.
      assert (Hdem : demands m v s it0 (it_la it0) (AReduce r)) by (eapply dm_reduce; eauto; rewrite fieldset_len_symbols; exact Hdot).
      pose proof (ts_demand m v t HT _ _ _ _ (ex_intro _ st (conj Hst Hit)) Hdem) as Hta.
      pose proof (proj1 (table_action_cell v t ns Hshape Hterms s (it_la it0) _) Hta) as (c & Hc & _).
      apply (get_action_table v t pt ns Hshape Hterms Hnts Hnn HP s (it_la it0) c) in Hta; [|exact Hc].
      replace (col pt (ila (tr it0))) with c; [exact Hta|]. cbn [tr ila]. unfold col, la_tr.
      destruct (it_la it0) as [u|]; cbn in Hc |- *; [unfold tix; rewrite Hc; reflexivity|injection Hc as <-; symmetry; exact Hnterm].
    - (* accept *)
      intros s it Hin Hr Had Hla. apply In_state_iff in Hin as (st & it0 & Hst & Hit & ->). cbn [tr irule ila] in Hr, Hla.
      destruct (item_view _ _ _ Hst Hit) as (syms & ps & Hrs & Hd & Hps & HR & Had'). rewrite Had' in Had. injection Had as Had.
      rewrite Hr in Hrs. cbn [rule_syms] in Hrs. injection Hrs as <-.
      assert (Hdot : it_dot it0 <> 0).
      { intros E. rewrite E in Had. cbn in Had. inversion HR; subst. discriminate. }
      pose proof (ts_demand m v t HT _ _ _ _ (ex_intro _ st (conj Hst Hit)) (dm_accept m v s it0 Hr Hdot)) as Hta.
      apply (get_action_table v t pt ns Hshape Hterms Hnts Hnn HP s None ntm) in Hta; [|reflexivity].
      rewrite Hnterm. exact Hta.
    - (* used *)
      intros r pru Hr. destruct (Forall2_nth_r _ _ _ prules_rel r pru Hr) as (ru & _ & Hpr).
      destruct (prule_parts ru pru Hpr) as (_ & HR & ->). rewrite field_used_length. apply (Forall2_length _ _ _ HR).
  Qed.

  Theorem gen_FirstOK {P} (kind : P -> nat) : FirstOK kind pt (fseq ft).
  Proof. apply FirstOK_of_closed, ft_closed. Qed.

  (* ---------- the safety invariant ---------- *)

  Lemma rule_none_la it0 s st : nth_error (m_states m) s = Some st -> In it0 st -> it_rule it0 = None -> it_la it0 = None.
  Proof.
    intros Hst Hit Hr. destruct (mi_states cx m HM s st Hst) as (_ & _ & Hok & _). destruct (Hok it0 Hit) as (_ & Hla).
    unfold la_ok in Hla. destruct (it_la it0); [destruct Hla as (_ & Hne); contradiction|reflexivity].
  Qed.

  Lemma qcol_of_col c : c <= ntm -> exists q, qcol tn q = Some c.
  Proof.
    intros Hc. destruct (Nat.eq_dec c ntm) as [->|Hne]; [exists None; reflexivity|].
    destruct (nth_error tn c) as [u|] eqn:Eu; [|apply nth_error_None in Eu; lia].
    exists (Some u). cbn. apply position_str_nodup; [apply (vw_ts v HV)|exact Eu].
  Qed.

  Theorem gen_Inv2 : Inv2 pt ann.
  Proof.
    destruct pt_fields as (Hstart & Hsnt & Hnterm & _). split.
    - unfold nstates. rewrite ann_length, Hstart. apply (mi_start_lt cx m HM).
    - intros s c Hs Hc. unfold nstates in Hs. rewrite ann_length in Hs. rewrite Hnterm in Hc. rewrite (get_action_cell v t pt ns Hshape Hterms Hnts Hnn HP s c Hs Hc).
      destruct (nth_error (tb_actions t) (s * S ntm + c)) as [a|] eqn:E; [eauto|]. apply nth_error_None in E.
      destruct Hshape as (Hl & _). rewrite Hterms in Hl. nia.
    - intros s r pru Hs Hr. unfold nstates in Hs. rewrite ann_length in Hs. destruct (Forall2_nth_r _ _ _ prules_rel r pru Hr) as (ru & _ & Hpr).
      destruct (prule_parts ru pru Hpr) as (Hl & _ & _). apply position_str_lt in Hl.
      rewrite (get_goto_cell v t pt ns Hshape Hterms Hnts Hnn HP s _ Hs Hl).
      destruct (nth_error (tb_gotos t) (s * nnt + pr_lhs pru)) as [g|] eqn:E; [cbn; eauto|]. apply nth_error_None in E.
      destruct Hshape as (_ & Hl'). rewrite Hnts in Hl'. nia.
    - intros s x s' Hs Hg. unfold nstates. rewrite ann_length. apply goto_sym_trans in Hg as (trn & Hin & _ & <- & _). apply (mi_trans_bound cx m HM trn Hin).
    - apply (inv_used _ _ _ gen_Inv).
    - (* every non-error cell is demanded *)
      intros s c a Hs Ha Hne. destruct (get_action_row v t pt ns Hshape Hterms Hnts Hnn HP s c _ Ha) as (_ & Hc).
      destruct (qcol_of_col c Hc) as (q & Hq).
      apply (get_action_table v t pt ns Hshape Hterms Hnts Hnn HP s q c) in Ha; [|exact Hq].
      destruct (ts_cell m v t HT s q a Ha Hne) as (it0 & (st & Hst & Hit) & Hdem).
      exists (tr it0). split; [apply In_state_iff; eauto|].
      destruct (item_view _ _ _ Hst Hit) as (syms & ps & Hrs & Hd & Hps & HR & Had).
      inversion Hdem as [Hr Hd0|r ru Hr Hru Hdot|r ru u dest Hr Hru Hdot Hsym Hgd]; subst.
      + (* accept *)
        cbn in Hq. injection Hq as <-. rewrite <- Hnterm.
        rewrite Hr in Hrs. cbn [rule_syms] in Hrs. injection Hrs as <-. cbn [length] in Hd.
        apply d_accept; [exact Hr| |cbn [tr ila]; rewrite (rule_none_la _ _ _ Hst Hit Hr); reflexivity].
        rewrite Had. f_equal. inversion HR as [|? ? ? ? _ HR']; subst. inversion HR'; subst.
        destruct (it_dot it0) as [|[|d]]; [contradiction|reflexivity|lia].
      + (* reduce *)
        rewrite Hr in Hrs. cbn [rule_syms] in Hrs. rewrite Hcx_rules, Hru in Hrs. cbn in Hrs. injection Hrs as <-.
        rewrite fieldset_len_symbols in Hdot.
        replace c with (col pt (ila (tr it0))).
        * apply d_reduce; [exact Hr|]. rewrite Had. f_equal. apply skipn_all2. rewrite <- (Forall2_length _ _ _ HR). lia.
        * cbn [tr ila]. unfold col, la_tr. destruct (it_la it0) as [u|]; cbn in Hq |- *; [unfold tix; rewrite Hq; reflexivity|].
          injection Hq as <-. exact Hnterm.
      + (* shift *)
        rewrite Hr in Hrs. cbn [rule_syms] in Hrs. rewrite Hcx_rules, Hru in Hrs. cbn in Hrs. injection Hrs as <-.
        destruct (Forall2_nth_l _ _ _ HR _ _ Hsym) as (p & Hp & HpR). apply R_T in HpR as (c' & -> & Hc' & _).
        cbn in Hq. rewrite Hq in Hc'. injection Hc' as <-.
        apply (d_shift pt _ _ c (skipn (S (it_dot it0)) ps)).
        * rewrite Had. f_equal. apply nth_skipn_cons, Hp.
        * rewrite Hnterm. apply position_str_lt in Hq. exact Hq.
    - (* item_wf *)
      intros s it Hin. apply In_state_iff in Hin as (st & it0 & Hst & Hit & ->).
      destruct (item_view _ _ _ Hst Hit) as (syms & ps & Hrs & Hd & Hps & HR & _). exists ps. split; [exact Hps|].
      cbn [tr idot]. rewrite <- (Forall2_length _ _ _ HR). exact Hd.
    - (* back *)
      intros s x s' it Hs Hg Hin Hdot. unfold nstates in Hs. rewrite ann_length in Hs. apply goto_sym_trans in Hg as (trn & Htin & <- & <- & HRx).
      apply In_state_iff in Hin as (st' & it0 & Hst' & Hit & ->). cbn [tr idot] in Hdot.
      destruct (nth_error (m_states m) (tr_from trn)) as [sf|] eqn:Esf; [|apply nth_error_None in Esf; lia].
      destruct (mi_back cx m HM trn sf st' it0 Htin Esf Hst' Hit Hdot) as (it1 & Hit1 & Hn1 & Hr1 & Hd1).
      destruct (item_view _ _ _ Esf Hit1) as (syms & ps & Hrs & Hd & Hps & HR & _).
      unfold next_sym in Hn1. rewrite Hrs in Hn1. destruct (Forall2_nth_l _ _ _ HR _ _ Hn1) as (p & Hp & HpR).
      pose proof (R_fun _ _ _ HpR HRx) as ->. split.
      + exists ps. cbn [tr irule idot]. rewrite <- Hr1, <- Hd1. cbn [pred]. auto.
      + exists (la_tr (it_la it1)). apply In_state_iff. exists sf, it1. split; [exact Esf|]. split; [exact Hit1|].
        unfold retreat, tr. cbn [irule idot ila]. rewrite <- Hr1, <- Hd1. reflexivity.
    - (* back0 *)
      intros s x s' it Hs Hg Hin Hdot. apply goto_sym_trans in Hg as (trn & Htin & _ & <- & _).
      apply In_state_iff in Hin as (st' & it0 & Hst' & Hit & ->). cbn [tr idot irule] in *.
      destruct (mi_states cx m HM _ st' Hst') as (_ & _ & _ & Hj).
      destruct (Hj it0 Hit Hdot) as [(_ & E)|(jt & _ & Himp)].
      + exfalso. apply (mi_trans_bound cx m HM trn Htin). exact E.
      + destruct (implied_by_wf cx jt it0 Himp) as (_ & _ & Hne). exact Hne.
    - (* dot0 *)
      intros s it Hin Hdot. apply In_state_iff in Hin as (st & it0 & Hst & Hit & ->). cbn [tr idot irule] in *.
      destruct (mi_states cx m HM s st Hst) as (_ & _ & _ & Hj).
      destruct (Hj it0 Hit Hdot) as [(Hr & ->)|(jt & Hjt & Himp)]; [left; auto|]. right.
      destruct Himp as (syms & B & r & ru & la & Hrs & Hnth & Hru & HB & _ & ->). rewrite Hcx_rules in Hru.
      destruct (Forall2_nth_l _ _ _ prules_rel r ru Hru) as (pru & Hpr & Hprule). destruct (prule_parts ru pru Hprule) as (Hl & _ & _).
      destruct (item_view _ _ _ Hst Hjt) as (syms' & ps & Hrs' & Hd & Hps & HR & Had). rewrite Hrs in Hrs'. injection Hrs' as <-.
      destruct (Forall2_nth_l _ _ _ HR _ _ Hnth) as (p & Hp & HpR). apply R_N in HpR as (c & -> & Hc).
      rewrite <- HB, Hl in Hc. injection Hc as <-.
      exists r, pru, (tr jt), (skipn (S (it_dot jt)) ps). split; [reflexivity|]. split; [exact Hpr|]. split; [apply In_state_iff; eauto|].
      rewrite Had. f_equal. apply nth_skipn_cons, Hp.
    - (* goto2 *)
      intros s jt n rest Hin Had. destruct (inv_goto _ _ _ gen_Inv s jt (PN n) rest Hin Had) as (s' & Hg & _).
      cbn [goto_sym] in Hg. destruct (get_goto pt s n) as [[d|]|]; try discriminate. eauto.
    - (* start: dot 0 *)
      intros it Hin. rewrite Hstart in Hin. apply In_state_iff in Hin as (st & it0 & Hst & Hit & ->).
      destruct (mi_start cx m HM) as (st0 & Hs0 & _ & Hd0). rewrite Hs0 in Hst. injection Hst as <-. apply Hd0, Hit.
    - (* start is no target *)
      intros s x Hs Hg. apply goto_sym_trans in Hg as (trn & Htin & _ & Hto & _). rewrite Hstart in Hto.
      apply (mi_trans_bound cx m HM trn Htin). exact Hto.
  Qed.

  (* ---------- every item is reached from the kernel of its state ---------- *)

  Lemma reach_in_state st K it0 : closed cx st -> incl K st -> reach cx K it0 -> In it0 st.
  Proof. intros Hc Hk H. induction H as [it Hin|jt it _ IH Himp]; [apply Hk, Hin|apply (Hc jt it IH Himp)]. Qed.

  Theorem gen_Inv3 : Inv3 pt ann.
  Proof.
    destruct pt_fields as (Hstart & _ & _ & _). split.
    - intros s it Hin. apply In_state_iff in Hin as (st & it0 & Hst & Hit & ->).
      destruct (mi_states cx m HM s st Hst) as (_ & Hclosed & _ & Hj).
      pose proof (mi_reach cx m HM s st it0 Hst Hit) as Hr.
      assert (Hk : incl (kernel st) st) by (intros y Hy; apply filter_In in Hy; apply Hy).
      clear Hit. induction Hr as [it0 Hker|jt0 it0 Hrj IH Himp].
      + apply filter_In in Hker as (Hit & Hk0). apply lr_kernel; [apply In_state_iff; eauto|]. cbn [tr idot irule].
        unfold is_kernel in Hk0. destruct (Nat.eqb_spec (it_dot it0) 0) as [E|Hne]; [|left; lia]. cbn in Hk0.
        destruct (it_rule it0) eqn:Er; [discriminate|]. right. split; [reflexivity|]. rewrite Hstart.
        destruct (Hj it0 Hit E) as [(_ & ->)|(jt & _ & Hi)]; [reflexivity|].
        destruct (implied_by_wf cx jt it0 Hi) as (_ & _ & Hne). congruence.
      + pose proof (reach_in_state st _ jt0 Hclosed Hk Hrj) as Hjt.
        destruct Himp as (syms & B & r & ru & la & Hrs & Hnth & Hru & HB & _ & ->). rewrite Hcx_rules in Hru.
        destruct (Forall2_nth_l _ _ _ prules_rel r ru Hru) as (pru & Hpr & Hprule). destruct (prule_parts ru pru Hprule) as (Hl & _ & _).
        destruct (item_view _ _ _ Hst Hjt) as (syms' & ps & Hrs' & Hd & Hps & HR & Had). rewrite Hrs in Hrs'. injection Hrs' as <-.
        destruct (Forall2_nth_l _ _ _ HR _ _ Hnth) as (p & Hp & HpR). apply R_N in HpR as (c & -> & Hc).
        rewrite <- HB, Hl in Hc. injection Hc as <-.
        apply (lr_call pt ann s (tr jt0) _ r pru (skipn (S (it_dot jt0)) ps)); [exact IH| |reflexivity|exact Hpr|reflexivity].
        rewrite Had. f_equal. apply nth_skipn_cons, Hp.
    - intros s n s' Hs Hg. assert (Hgs : goto_sym pt s (PN n) = Some s') by (cbn [goto_sym]; rewrite Hg; reflexivity).
      apply goto_sym_trans in Hgs as (trn & Htin & <- & _ & HRx).
      destruct (mi_sym cx m HM trn Htin) as (sf & it0 & Hsf & Hit & Hn).
      destruct (item_view _ _ _ Hsf Hit) as (syms & ps & Hrs & Hd & Hps & HR & Had).
      unfold next_sym in Hn. rewrite Hrs in Hn. destruct (Forall2_nth_l _ _ _ HR _ _ Hn) as (p & Hp & HpR).
      pose proof (R_fun _ _ _ HpR HRx) as ->.
      exists (tr it0), (skipn (S (it_dot it0)) ps). split; [apply In_state_iff; eauto|]. rewrite Had. f_equal. apply nth_skipn_cons, Hp.
  Qed.

  (* ---------- leastness: every item is derivable ---------- *)

  Hypothesis HD : forall k st it, nth_error (m_states m) k = Some st -> In it st ->
                                  Der cx (m_transitions m) (m_start m) k it.

  (* the candidates of the closure, the other way round *)
  Lemma cands_rel_conv syms ps la a0 : Forall2 R syms ps ->
    In a0 (augmented_first (first_of_sequence fm syms []) la) -> In (la_tr a0) (cands ft ps (la_tr la)).
  Proof.
    intros HR Hin. destruct (first_seq_rel _ _ HR) as (Hf & Hn).
    destruct (first_of_sequence_spec fm syms []) as (Hterms' & Heps).
    unfold cands. rewrite Hf, Hn. unfold augmented_first in Hin. rewrite Heps in Hin.
    assert (Hcase : In a0 (map Some (fs_terminals (first_of_sequence fm syms []))) \/ (fnull fm syms = true /\ a0 = la)).
    { destruct (fnull fm syms); apply (proj1 (ofrom_iter_in lookahead_cmp lookahead_cmp_laws _ _)) in Hin.
      - apply in_app_or in Hin as [Hin|[<-|[]]]; auto.
      - auto. }
    destruct Hcase as [Hc|(Hnull & ->)].
    - apply in_map_iff in Hc as (u & <- & Hu). apply Hterms' in Hu as [[]|Hu]. apply in_or_app. left. cbn [la_tr option_map].
      apply in_map, in_map, Hu.
    - apply in_or_app. right. rewrite Hnull. left. reflexivity.
  Qed.

  Lemma der_in_state k it0 : Der cx (m_transitions m) (m_start m) k it0 ->
    exists st, nth_error (m_states m) k = Some st /\ In it0 st.
  Proof.
    intros H. induction H as [|j jt it _ (st & Hst & Hjt) Himp|trn it Htin _ (sf & Hsf & Hit) Hn].
    - destruct (mi_start cx m HM) as (st0 & Hs0 & Hin & _). eauto.
    - exists st. split; [exact Hst|]. destruct (mi_states cx m HM j st Hst) as (_ & Hc & _). apply (Hc jt it Hjt Himp).
    - destruct (mi_goto cx m HM _ sf it _ Hsf Hit Hn) as (t2 & st' & Ht2 & Hf2 & Hs2 & Hst' & Hadv).
      assert (Hto : tr_to t2 = tr_to trn) by (apply (mi_det cx m HM t2 trn Ht2 Htin Hf2 Hs2)).
      rewrite Hto in Hst'. eauto.
  Qed.

  Theorem gen_Least : Least pt ann (fseq ft).
  Proof.
    destruct pt_fields as (Hstart & _ & _ & _).
    intros s it Hin. apply In_state_iff in Hin as (st & it0 & Hst & Hit & ->).
    pose proof (HD s st it0 Hst Hit) as Hd. clear Hst Hit st.
    induction Hd as [|j jt0 it0 Hdj IH Himp|trn it0 Htin Hdf IH Hn].
    - rewrite <- Hstart. apply ld_start.
    - destruct (der_in_state _ _ Hdj) as (st & Hst & Hjt).
      destruct Himp as (syms & B & r & ru & la & Hrs & Hnth & Hru & HB & Hla & ->). rewrite Hcx_rules in Hru.
      destruct (Forall2_nth_l _ _ _ prules_rel r ru Hru) as (pru & Hpr & Hprule). destruct (prule_parts ru pru Hprule) as (Hl & _ & _).
      destruct (item_view _ _ _ Hst Hjt) as (syms' & ps & Hrs' & Hd & Hps & HR & Had). rewrite Hrs in Hrs'. injection Hrs' as <-.
      destruct (Forall2_nth_l _ _ _ HR _ _ Hnth) as (p & Hp & HpR). apply R_N in HpR as (c & -> & Hc).
      rewrite <- HB, Hl in Hc. injection Hc as <-.
      change (tr {| it_rule := Some r; it_la := la; it_dot := 0 |}) with {| irule := Some r; idot := 0; ila := la_tr la |}.
      apply (ld_closure pt (fseq ft) j (tr jt0) r pru (skipn (S (it_dot jt0)) ps) (la_tr la) IH).
      + rewrite Had. f_equal. apply nth_skipn_cons, Hp.
      + exact Hpr.
      + apply fseq_intro. cbn [tr ila]. apply (cands_rel_conv (skipn (S (it_dot jt0)) syms)); [apply Forall2_skipn, HR|exact Hla].
    - destruct (der_in_state _ _ Hdf) as (sf & Hsf & Hit).
      destruct (item_view _ _ _ Hsf Hit) as (syms & ps & Hrs & Hd & Hps & HR & Had).
      unfold next_sym in Hn. rewrite Hrs in Hn. destruct (Forall2_nth_l _ _ _ HR _ _ Hn) as (p & Hp & HpR).
      rewrite tr_adv. apply (ld_goto pt (fseq ft) (tr_from trn) (tr it0) p (skipn (S (it_dot it0)) ps) (tr_to trn) IH).
      + rewrite Had. f_equal. apply nth_skipn_cons, Hp.
      + apply (trans_goto_sym trn sf it0 p Htin Hsf Hit); [unfold next_sym; rewrite Hrs; exact Hn|exact HpR].
  Qed.
End Gen.

(* ---------- the construction as a whole ---------- *)

Lemma pall_some_total {A B} (f : A -> option B) l : (forall x, In x l -> exists y, f x = Some y) ->
  exists l', Parser.all_some (map f l) = Some l'.
Proof.
  induction l as [|x l IH]; intros H; [exists []; reflexivity|]. cbn [map Parser.all_some].
  destruct (H x (or_introl eq_refl)) as (y & ->). destruct IH as (l' & ->); [intros z Hz; apply H; right; exact Hz|].
  cbn. eauto.
Qed.

Lemma rule_type_declared v ru : In ru (get_rules v) -> In (ru_type ru) (v_nnames v).
Proof.
  unfold get_rules, v_nnames. intros H. apply in_flat_map in H as (nt & Hnt & Hru). apply in_map_iff. exists nt. split; [|exact Hnt].
  destruct nt as [s|e]; cbn [rules_of_nt nt_name] in *.
  - destruct Hru as [<-|[]]. reflexivity.
  - apply in_map_iff in Hru as (v0 & <- & _). reflexivity.
Qed.

(* every validated file has driver tables *)
Lemma ptable_of_total v t : VWF v -> exists pt, ptable_of v t = Some pt.
Proof.
  intros HV. unfold ptable_of. fold (v_nnames v).
  destruct (position_str_In _ _ (vw_start v HV)) as (k & ->).
  destruct (pall_some_total (prule_of v) (get_rules v)) as (rs & ->); [|eauto].
  intros ru Hru. unfold prule_of. fold (v_nnames v).
  destruct (position_str_In _ _ (rule_type_declared v ru Hru)) as (l & ->).
  destruct (pall_some_total (psym_of v) (field_symbols (ru_fieldset ru))) as (rhs & ->); [|eauto].
  intros sy Hsy. pose proof (vw_refs v HV ru sy Hru Hsy) as Hd. unfold psym_of. fold (v_tnames v) (v_nnames v).
  destruct sy as [a|a]; cbn in Hd; apply position_str_In in Hd as (c & ->); cbn; eauto.
Qed.

(* The tables built for a validated file, read the way the emitted parser reads them,
   carry the LR invariants: with the item sets of the machine as the annotation. *)
Theorem generated_tables_invariants hot hoa fu v m t pt :
  VWF v -> (forall l, Permutation (hot l) l) -> perm_ho hoa ->
  validated_ast_to_machine hot fu v = Ok m -> machine_to_table hoa m v = Ok t -> ptable_of v t = Some pt ->
  exists (ann : list (list Grammar.item)) (ft : first_table),
    Inv pt ann (fseq ft) /\ Inv2 pt ann /\ (forall P (kind : P -> nat), FirstOK kind pt (fseq ft)) /\ Inv3 pt ann /\
    Least pt ann (fseq ft) /\ (first_closed ft (pt_rules pt) = true /\ FirstLeast pt ft).
Proof.
  intros HV Hpt Hpa Hm Ht HP. unfold validated_ast_to_machine in Hm.
  apply bind_ok in Hm as (cx & Hcx & Hm). apply bind_ok in Hm as (start & Hstart & Hm).
  unfold make_context in Hcx. apply bind_ok in Hcx as (fm & Hfm & Hcx). injection Hcx as <-.
  destruct (get_first_sets_spec _ _ _ Hfm) as (HFI & HFC).
  set (cx := {| cx_start := vf_start v; cx_rules := get_rules v; cx_first := fm |}) in *.
  assert (Hfmok : fm_ok cx).
  { intros n fs u Hg Hu. destruct (fi_occurs _ _ HFI n fs u Hg Hu) as (ru & Hru & Hs). exists ru. auto. }
  pose proof (machine_spec cx Hfmok hot (fu_build fu) (fu_closure fu) m start Hpt Hstart Hm) as HM.
  pose proof (machine_to_table_spec m v hoa t Hpa Ht) as HT.
  pose proof (machine_der cx Hfmok hot (fu_build fu) (fu_closure fu) m start Hpt Hstart Hm) as HDer.
  pose proof (get_first_sets_least _ _ _ Hfm) as HFJ.
  exists (ann v m), (ft v cx). split; [|split; [|split; [|split; [|split; [|split]]]]].
  - apply gen_Inv with (t := t) (cx := cx); try assumption; reflexivity.
  - apply gen_Inv2 with (t := t) (cx := cx); try assumption; reflexivity.
  - intros P kind. apply gen_FirstOK with (m := m) (t := t) (cx := cx); try assumption; reflexivity.
  - apply gen_Inv3 with (t := t) (cx := cx); try assumption; reflexivity.
  - apply gen_Least with (t := t) (cx := cx); try assumption; reflexivity.
  - apply ft_closed with (m := m) (t := t); try assumption; reflexivity.
  - apply ft_least with (m := m) (t := t); try assumption; reflexivity.
Qed.

(* the machine the generator builds for a validated file: closed, least, one state per core *)
Theorem machine_is_the_lalr_automaton hot fu v m :
  (forall l, Permutation (hot l) l) -> validated_ast_to_machine hot fu v = Ok m ->
  exists cx, cx_rules cx = get_rules v /\ cx_start cx = vf_start v /\
             MInv cx m /\
             (forall k st it, nth_error (m_states m) k = Some st -> In it st -> Der cx (m_transitions m) (m_start m) k it) /\
             (forall i j si sj, nth_error (m_states m) i = Some si -> nth_error (m_states m) j = Some sj -> same_cores si sj -> i = j).
Proof.
  intros Hpt Hm. unfold validated_ast_to_machine in Hm.
  apply bind_ok in Hm as (cx & Hcx & Hm). apply bind_ok in Hm as (start & Hstart & Hm).
  unfold make_context in Hcx. apply bind_ok in Hcx as (fm & Hfm & Hcx). injection Hcx as <-.
  destruct (get_first_sets_spec _ _ _ Hfm) as (HFI & _).
  set (cx := {| cx_start := vf_start v; cx_rules := get_rules v; cx_first := fm |}) in *.
  assert (Hfmok : fm_ok cx).
  { intros n fs u Hg Hu. destruct (fi_occurs _ _ HFI n fs u Hg Hu) as (ru & Hru & Hs). exists ru. auto. }
  exists cx. split; [reflexivity|]. split; [reflexivity|]. split; [|split].
  - apply (machine_spec cx Hfmok hot (fu_build fu) (fu_closure fu) m start Hpt Hstart Hm).
  - apply (machine_der cx Hfmok hot (fu_build fu) (fu_closure fu) m start Hpt Hstart Hm).
  - apply (machine_uniq cx Hfmok hot (fu_build fu) (fu_closure fu) m start Hstart Hm).
Qed.

(* ... and that is the textbook LALR(1) automaton, for EVERY validated file (accepted or not):
   each state is the merge of the canonical LR(1) item sets I(g) — g a viable prefix leading to
   it — all of which have exactly its core; distinct states have distinct cores; and the closure
   rule computes its lookaheads from exactly FIRST / nullable of the grammar. *)
Theorem machine_is_merged_canonical_LR1 hot fu v m :
  (forall l, Permutation (hot l) l) -> validated_ast_to_machine hot fu v = Ok m ->
  exists cx, cx_rules cx = get_rules v /\ cx_start cx = vf_start v /\
    (forall n, (forall t, In t (fs_terminals (fm_get_or_empty (cx_first cx) n)) <-> fder (get_rules v) n t) /\
               (fs_eps (fm_get_or_empty (cx_first cx) n) = true <-> nder (get_rules v) n)) /\
    (forall k st it, nth_error (m_states m) k = Some st ->
                     (In it st <-> exists g, npath m g k /\ nvalid1 cx g it)) /\
    (forall g k, npath m g k -> forall st it, nth_error (m_states m) k = Some st -> In it st ->
                 exists it', nvalid1 cx g it' /\ core_of it' = core_of it) /\
    (forall i j si sj, nth_error (m_states m) i = Some si -> nth_error (m_states m) j = Some sj -> same_cores si sj -> i = j).
Proof.
  intros Hpt Hm. unfold validated_ast_to_machine in Hm.
  apply bind_ok in Hm as (cx & Hcx & Hm). apply bind_ok in Hm as (start & Hstart & Hm).
  unfold make_context in Hcx. apply bind_ok in Hcx as (fm & Hfm & Hcx). injection Hcx as <-.
  destruct (get_first_sets_spec _ _ _ Hfm) as (HFI & _).
  set (cx := {| cx_start := vf_start v; cx_rules := get_rules v; cx_first := fm |}) in *.
  assert (Hfmok : fm_ok cx).
  { intros n fs u Hg Hu. destruct (fi_occurs _ _ HFI n fs u Hg Hu) as (ru & Hru & Hs). exists ru. auto. }
  pose proof (machine_spec cx Hfmok hot (fu_build fu) (fu_closure fu) m start Hpt Hstart Hm) as HM.
  pose proof (machine_der cx Hfmok hot (fu_build fu) (fu_closure fu) m start Hpt Hstart Hm) as HD.
  exists cx. split; [reflexivity|]. split; [reflexivity|]. split; [|split; [|split]].
  - exact (get_first_sets_exact _ _ _ Hfm).
  - intros k st it Hst. exact (canon_merge cx m HM HD k st it Hst).
  - intros g k Hp st it Hst Hin. exact (canon_same_core cx m HM g k Hp st it Hst Hin).
  - apply (machine_uniq cx Hfmok hot (fu_build fu) (fu_closure fu) m start Hstart Hm).
Qed.
