(* Build/NoErr.v — "this result is not an error value", and: the automaton construction returns
   no error value (it can fail only by an internal panic or by running out of the model's fuel). *)
From Coq Require Import List Arith Lia Bool.
From Kiki Require Import Base.Ord Base.Chars Data DataProofs Oset.Model Build.Machine.
Import ListNotations.

Definition ne {A} (r : res A) : Prop := forall e, r <> Err e.

Lemma ne_ok {A} (a : A) : ne (Ok a). Proof. discriminate 1. Qed.
Lemma ne_panic {A} s : ne (@Panic A s). Proof. discriminate 1. Qed.
Lemma ne_oof {A} s : ne (@OutOfFuel A s). Proof. discriminate 1. Qed.
Lemma ne_bind {A B} (r : res A) (k : A -> res B) : ne r -> (forall a, ne (k a)) -> ne (bind r k).
Proof. intros Hr Hk. destruct r; cbn; [apply Hk| |discriminate 1|discriminate 1]. intros e'. exfalso. apply (Hr e). reflexivity. Qed.
Lemma ne_unwrap {A} site (o : option A) : ne (unwrap site o).
Proof. destruct o; discriminate 1. Qed.
Lemma ne_map_res {A B} (f : A -> res B) l : (forall x, ne (f x)) -> ne (map_res f l).
Proof.
  intros H. induction l as [|x l IH]; cbn [map_res]; [discriminate 1|].
  apply ne_bind; [apply H|]. intros y. apply ne_bind; [exact IH|]. intros; discriminate 1.
Qed.

Ltac ne_step :=
  match goal with
  | |- ne (Ok _) => apply ne_ok
  | |- ne (Panic _) => apply ne_panic
  | |- ne (OutOfFuel _) => apply ne_oof
  | |- ne (unwrap _ _) => apply ne_unwrap
  | |- ne (bind _ _) => apply ne_bind; [|intros ?]
  | |- ne (match ?x with _ => _ end) => destruct x
  | |- ne (if ?x then _ else _) => destruct x
  | |- ne (map_res _ _) => apply ne_map_res; intros ?
  end.
Ltac ne_auto := repeat ne_step.

Lemma ne_expand rs : forall m ch, ne (expand m rs ch).
Proof. induction rs as [|r rs IH]; intros m ch; cbn [expand]; [ne_auto|]. ne_step; [unfold expand_rule; ne_auto|]. destruct a. apply IH. Qed.

Lemma ne_first_loop rs : forall fuel m, ne (first_loop fuel rs m).
Proof. induction fuel as [|f IH]; intros m; cbn [first_loop]; [ne_auto|]. ne_step; [apply ne_expand|]. destruct a as [m' c]. destruct c; [apply IH|ne_auto]. Qed.

Lemma ne_symbol_right_of_dot cx it : ne (symbol_right_of_dot cx it).
Proof. unfold symbol_right_of_dot. ne_auto. Qed.

Lemma ne_symbols_after_dot cx it : ne (symbols_after_dot cx it).
Proof. unfold symbols_after_dot. ne_auto. Qed.

Lemma ne_closure_implied cx it : ne (closure_implied_items cx it).
Proof.
  unfold closure_implied_items. ne_step; [apply ne_symbol_right_of_dot|]. destruct a as [[u|n]|]; [ne_auto| |ne_auto].
  ne_step; [apply ne_symbols_after_dot|ne_auto].
Qed.

Lemma ne_closure_loop cx : forall fuel q items, ne (closure_loop fuel cx q items).
Proof.
  induction fuel as [|f IH]; intros q items; cbn [closure_loop]; [ne_auto|]. destruct q as [|next q]; [ne_auto|].
  destruct (ocontains item_cmp next items); [apply IH|]. ne_step; [apply ne_closure_implied|apply IH].
Qed.

Lemma ne_enqueue_state b s : ne (enqueue_state_if_needed b s).
Proof. unfold enqueue_state_if_needed. destruct (index_of_mergable _ s 0); [|ne_auto]. ne_step; [ne_auto|]. destruct (add_items a s false). ne_auto. Qed.

Lemma ne_advance cx sym it : ne (advance cx sym it).
Proof. unfold advance. ne_step; [apply ne_symbol_right_of_dot|]. destruct a as [s|]; [destruct (symbol_eqb s sym)|]; ne_auto. Qed.

Lemma ne_enqueue_target cf cx b from sym : ne (enqueue_transition_target cf cx b from sym).
Proof.
  unfold enqueue_transition_target. ne_step; [ne_auto|]. ne_step; [ne_step; apply ne_advance|]. ne_step; [apply ne_closure_loop|].
  ne_step; [apply ne_enqueue_state|]. destruct a2. ne_auto.
Qed.

Lemma ne_enqueue_targets cf cx from : forall syms b, ne (enqueue_targets cf cx b from syms).
Proof. induction syms as [|s syms IH]; intros b; cbn [enqueue_targets]; [ne_auto|]. ne_step; [apply ne_enqueue_target|apply IH]. Qed.

Lemma ne_build_loop cf cx : forall fuel b, ne (build_loop fuel cf cx b).
Proof.
  induction fuel as [|f IH]; intros b; cbn [build_loop]; [ne_auto|]. destruct (b_queue b) as [|i q]; [ne_auto|].
  ne_step; [ne_auto|]. ne_step; [unfold symbols_right_of_dot; ne_step; [ne_step; apply ne_symbol_right_of_dot|ne_auto]|].
  ne_step; [apply ne_enqueue_targets|apply IH].
Qed.

Lemma ne_normalize ho sts ts : ne (normalize_machine ho sts ts).
Proof.
  unfold normalize_machine. ne_step; [ne_step; unfold update_transition, update_index; ne_auto|]. ne_step; [unfold update_index; ne_auto|ne_auto].
Qed.

Theorem validated_ast_to_machine_no_err ho fu f e : validated_ast_to_machine ho fu f <> Err e.
Proof.
  revert e. change (ne (validated_ast_to_machine ho fu f)). unfold validated_ast_to_machine, make_context, get_first_sets, get_closure.
  ne_step; [ne_step; [apply ne_first_loop|ne_auto]|]. ne_step; [apply ne_closure_loop|]. ne_step; [apply ne_build_loop|apply ne_normalize].
Qed.
