(* Extraction of the executable model to OCaml for the correspondence check.
   ExtrOcamlBasic only: bool, option, unit, list, prod, sumbool, sumor are mapped
   to their OCaml counterparts; nat, N, positive, comparison, string/ascii stay
   extracted datatypes.  No Extract Constant, no further Extract Inductive. *)
Require Extraction.
Require Import ExtrOcamlBasic.
From Kiki Require Import Base.Ord Base.Chars Data Oset.Model Pipeline Canon.
Extraction Language OCaml.
Extraction "../_build/ocaml/model.ml"
  entry_gen entry_tok entry_hash entry_mt entry_fm entry_run
  N_cmp pcmp lcmp str_cmp apply_op onew ocontains oeq ocmp dec_N hex_str.
