From Coq Require Import List NArith Bool Arith Lia.
From Kiki Require Import Base.Ord.

Lemma cthen_eq c1 c2 : cthen c1 c2 = Eq <-> c1 = Eq /\ c2 = Eq.
Proof. destruct c1, c2; cbn; intuition congruence. Qed.

Lemma cthen_lt c1 c2 : cthen c1 c2 = Lt <-> c1 = Lt \/ (c1 = Eq /\ c2 = Lt).
Proof. destruct c1, c2; cbn; intuition congruence. Qed.

Lemma cthen_opp c1 c2 : CompOpp (cthen c1 c2) = cthen (CompOpp c1) (CompOpp c2).
Proof. destruct c1, c2; reflexivity. Qed.

Lemma nat_cmp_laws : OrdLaws nat_cmp.
Proof.
  split; unfold nat_cmp.
  - intros; apply Nat.compare_eq_iff.
  - intros; apply Nat.compare_antisym.
  - intros x y z; rewrite !Nat.compare_lt_iff; lia.
Qed.

Lemma N_cmp_laws : OrdLaws N_cmp.
Proof.
  split; unfold N_cmp.
  - intros; apply N.compare_eq_iff.
  - intros; apply N.compare_antisym.
  - intros x y z; rewrite !N.compare_lt_iff; lia.
Qed.

Section Lex.
  Context {A : Type} (c : cmp_t A) (L : OrdLaws c).

  Lemma ol_refl x : c x x = Eq.
  Proof. apply (ol_eq c L); reflexivity. Qed.

  Lemma ol_gt_lt x y : c x y = Gt <-> c y x = Lt.
  Proof. rewrite (ol_sym c L x y). destruct (c x y); cbn; intuition congruence. Qed.

  Lemma lcmp_eq l1 : forall l2, lcmp c l1 l2 = Eq <-> l1 = l2.
  Proof.
    induction l1 as [|x xs IH]; intros [|y ys]; cbn; try (intuition congruence).
    rewrite cthen_eq, IH, (ol_eq c L). intuition congruence.
  Qed.

  Lemma lcmp_sym l1 : forall l2, lcmp c l2 l1 = CompOpp (lcmp c l1 l2).
  Proof.
    induction l1 as [|x xs IH]; intros [|y ys]; cbn; try reflexivity.
    rewrite cthen_opp, <- IH, <- (ol_sym c L). reflexivity.
  Qed.

  Lemma lcmp_trans l1 : forall l2 l3, lcmp c l1 l2 = Lt -> lcmp c l2 l3 = Lt -> lcmp c l1 l3 = Lt.
  Proof.
    induction l1 as [|x xs IH]; intros [|y ys] [|z zs]; cbn; try congruence.
    rewrite !cthen_lt. intros [H1|[H1 H1']] [H2|[H2 H2']].
    - left; eapply (ol_trans c L); eauto.
    - apply (ol_eq c L) in H2; subst; auto.
    - apply (ol_eq c L) in H1; subst; auto.
    - apply (ol_eq c L) in H1, H2; subst. right; split; [apply ol_refl|eauto].
  Qed.

  Lemma lcmp_laws : OrdLaws (lcmp c).
  Proof. split; [apply lcmp_eq|intros; apply lcmp_sym|apply lcmp_trans]. Qed.
End Lex.

Section Pair.
  Context {A B : Type} (ca : cmp_t A) (cb : cmp_t B) (La : OrdLaws ca) (Lb : OrdLaws cb).

  Lemma pcmp_laws : OrdLaws (pcmp ca cb).
  Proof.
    split; unfold pcmp.
    - intros [a b] [a' b']; cbn. rewrite cthen_eq, (ol_eq ca La), (ol_eq cb Lb).
      intuition congruence.
    - intros [a b] [a' b']; cbn. rewrite cthen_opp, <- (ol_sym ca La), <- (ol_sym cb Lb); reflexivity.
    - intros [a b] [a' b'] [a'' b'']; cbn. rewrite !cthen_lt.
      intros [H1|[H1 H1']] [H2|[H2 H2']].
      + left; eapply (ol_trans ca La); eauto.
      + apply (ol_eq ca La) in H2; subst; auto.
      + apply (ol_eq ca La) in H1; subst; auto.
      + apply (ol_eq ca La) in H1, H2; subst. right; split; [apply (ol_refl ca La)|].
        eapply (ol_trans cb Lb); eauto.
  Qed.
End Pair.

(* Transport of laws along an injection: used for records compared field by field. *)
Lemma map_cmp_laws {A B} (f : A -> B) (c : cmp_t B) :
  (forall x y, f x = f y -> x = y) -> OrdLaws c -> OrdLaws (fun x y => c (f x) (f y)).
Proof.
  intros Hinj L; split.
  - intros x y. rewrite (ol_eq c L). split; [apply Hinj|congruence].
  - intros; apply (ol_sym c L).
  - intros x y z; apply (ol_trans c L).
Qed.
