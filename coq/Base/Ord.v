(* Base/Ord.v — comparison functions in the style of Rust's derived `Ord`,
   their laws, and lexicographic combinators.  Model definitions only; the
   laws are proved in Base/OrdProofs.v. *)
From Coq Require Export List NArith Bool.
Export ListNotations.

Definition cmp_t (A : Type) := A -> A -> comparison.

Definition is_eq (c : comparison) : bool := match c with Eq => true | _ => false end.
Definition is_lt (c : comparison) : bool := match c with Lt => true | _ => false end.

(* `a.cmp(b).then(c)` *)
Definition cthen (c1 c2 : comparison) : comparison :=
  match c1 with Eq => c2 | r => r end.

(* derived Ord on Vec<T> / slices / String: lexicographic, a proper prefix is smaller *)
Fixpoint lcmp {A} (c : cmp_t A) (l1 l2 : list A) : comparison :=
  match l1, l2 with
  | [], [] => Eq
  | [], _ :: _ => Lt
  | _ :: _, [] => Gt
  | x :: xs, y :: ys => cthen (c x y) (lcmp c xs ys)
  end.

Definition pcmp {A B} (ca : cmp_t A) (cb : cmp_t B) : cmp_t (A * B) :=
  fun p q => cthen (ca (fst p) (fst q)) (cb (snd p) (snd q)).

Definition nat_cmp : cmp_t nat := Nat.compare.
Definition N_cmp : cmp_t N := N.compare.

(* derived Ord on Option-like `None`-last encodings is written out where used. *)

Record OrdLaws {A} (c : cmp_t A) : Prop := {
  ol_eq : forall x y, c x y = Eq <-> x = y;
  ol_sym : forall x y, c y x = CompOpp (c x y);
  ol_trans : forall x y z, c x y = Lt -> c y z = Lt -> c x z = Lt
}.
