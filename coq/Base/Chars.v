(* Base/Chars.v — characters (Unicode scalar values as N), strings (lists of
   characters), the `char`/`str` methods the crate uses, decimal and hex
   rendering.  Model definitions only. *)
From Coq Require Export String Ascii.
From Coq Require Export List NArith Bool.   (* List last: its length/concat shadow String's *)
From Kiki Require Import Base.Ord.
Export ListNotations.
Open Scope N_scope.

Definition char := N.
Definition str := list char.

Definition scalar_value (c : char) : bool :=
  (c <? 0xD800) || ((0xDFFF <? c) && (c <? 0x110000)).

(* char::len_utf8 *)
Definition len_utf8 (c : char) : N :=
  if c <? 0x80 then 1 else if c <? 0x800 then 2 else if c <? 0x10000 then 3 else 4.

(* str::len — length in bytes *)
Fixpoint blen (s : str) : N :=
  match s with [] => 0 | c :: r => len_utf8 c + blen r end.

Definition in_range (lo hi c : N) : bool := (lo <=? c) && (c <=? hi).

(* char::is_whitespace — the Unicode White_Space property (25 code points) *)
Definition is_whitespace (c : char) : bool :=
  in_range 9 13 c || (c =? 32) || (c =? 0x85) || (c =? 0xA0) || (c =? 0x1680)
  || in_range 0x2000 0x200A c || (c =? 0x2028) || (c =? 0x2029) || (c =? 0x202F)
  || (c =? 0x205F) || (c =? 0x3000).

Definition is_ascii_uppercase (c : char) : bool := in_range 65 90 c.
Definition is_ascii_lowercase (c : char) : bool := in_range 97 122 c.
Definition is_ascii_alphabetic (c : char) : bool := is_ascii_uppercase c || is_ascii_lowercase c.
Definition is_ascii_digit (c : char) : bool := in_range 48 57 c.
Definition is_ascii_alphanumeric (c : char) : bool := is_ascii_alphabetic c || is_ascii_digit c.
Definition to_ascii_lowercase (c : char) : char := if is_ascii_uppercase c then c + 32 else c.

(* Coq string literals to model strings (ASCII literals only) *)
Fixpoint s2l (s : string) : str :=
  match s with
  | EmptyString => []
  | String a r => N_of_ascii a :: s2l r
  end.

Definition ch (s : string) : char :=
  match s with String a _ => N_of_ascii a | EmptyString => 0 end.

(* String comparison: Rust compares the UTF-8 bytes, which orders like the code points *)
Definition str_cmp : cmp_t str := lcmp N_cmp.
Definition str_eqb (a b : str) : bool := is_eq (str_cmp a b).

(* decimal rendering of usize (`{}` on an integer) *)
Fixpoint digits_of_uint (d : Decimal.uint) : str :=
  match d with
  | Decimal.Nil => []
  | Decimal.D0 r => 48 :: digits_of_uint r
  | Decimal.D1 r => 49 :: digits_of_uint r
  | Decimal.D2 r => 50 :: digits_of_uint r
  | Decimal.D3 r => 51 :: digits_of_uint r
  | Decimal.D4 r => 52 :: digits_of_uint r
  | Decimal.D5 r => 53 :: digits_of_uint r
  | Decimal.D6 r => 54 :: digits_of_uint r
  | Decimal.D7 r => 55 :: digits_of_uint r
  | Decimal.D8 r => 56 :: digits_of_uint r
  | Decimal.D9 r => 57 :: digits_of_uint r
  end.

Definition dec_N (n : N) : str := digits_of_uint (N.to_uint n).
Definition dec_nat (n : nat) : str := dec_N (N.of_nat n).

(* UTF-8 encoding and lower-case hex, used only by the canonical printers *)
Definition utf8_encode (c : char) : list N :=
  if c <? 0x80 then [c]
  else if c <? 0x800 then [0xC0 + c / 64; 0x80 + c mod 64]
  else if c <? 0x10000 then [0xE0 + c / 4096; 0x80 + (c / 64) mod 64; 0x80 + c mod 64]
  else [0xF0 + c / 262144; 0x80 + (c / 4096) mod 64; 0x80 + (c / 64) mod 64; 0x80 + c mod 64].

Definition hex_digit (n : N) : char := if n <? 10 then 48 + n else 87 + n.
Definition hex_byte (b : N) : str := [hex_digit (b / 16); hex_digit (b mod 16)].
Definition hex_str (s : str) : str := flat_map hex_byte (flat_map utf8_encode s).

(* slicing `&src[a..b]` by byte offsets: None = Rust would panic
   (out of range, not on a char boundary, or a > b) *)
Fixpoint drop_to (l : str) (p a : N) : option str :=
  if p =? a then Some l
  else match l with
       | [] => None
       | c :: r => if a <? p + len_utf8 c then None else drop_to r (p + len_utf8 c) a
       end.

Fixpoint take_to (l : str) (p b : N) : option str :=
  if p =? b then Some []
  else match l with
       | [] => None
       | c :: r => if b <? p + len_utf8 c then None
                   else option_map (cons c) (take_to r (p + len_utf8 c) b)
       end.

Definition slice (src : str) (a b : N) : option str :=
  match drop_to src 0 a with
  | Some l => take_to l a b
  | None => None
  end.

(* `s.chars().enumerate`-free version of char_indices *)
Fixpoint char_indices_from (p : N) (s : str) : list (N * char) :=
  match s with [] => [] | c :: r => (p, c) :: char_indices_from (p + len_utf8 c) r end.
Definition char_indices (s : str) : list (N * char) := char_indices_from 0 s.

(* Vec<String>::join *)
Fixpoint join (sep : str) (l : list str) : str :=
  match l with
  | [] => []
  | [x] => x
  | x :: r => x ++ sep ++ join sep r
  end.

Fixpoint starts_with (p s : str) : bool :=
  match p, s with
  | [], _ => true
  | _ :: _, [] => false
  | a :: p', b :: s' => (a =? b) && starts_with p' s'
  end.

Fixpoint mem_str (x : str) (l : list str) : bool :=
  match l with [] => false | y :: r => str_eqb x y || mem_str x r end.

Fixpoint position_str (x : str) (l : list str) : option nat :=
  match l with
  | [] => None
  | y :: r => if str_eqb x y then Some O else option_map S (position_str x r)
  end.

(* indices 0..n-1 *)

Fixpoint enumerate_from {A} (i : nat) (l : list A) : list (nat * A) :=
  match l with [] => [] | x :: r => (i, x) :: enumerate_from (S i) r end.
Definition enumerate {A} (l : list A) : list (nat * A) := enumerate_from 0 l.
