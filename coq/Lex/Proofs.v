(* Lex/Proofs.v — theorems about the tokenizer model. *)
From Coq Require Import List Arith NArith Lia Bool.
From Kiki Require Import Base.Ord Base.Chars Data Ast.ValidateProofs Lex.Model.
Import ListNotations.
Open Scope N_scope.

(* ---------- layout (C16): whitespace and comments between tokens change nothing ---------- *)

Theorem whitespace_between_tokens_is_skipped src t c i :
  tz_state t = LMain -> is_whitespace c = true -> handle_char src t c i = Ok t.
Proof. intros Hs Hw. unfold handle_char. rewrite Hs. unfold handle_main. rewrite Hw. reflexivity. Qed.

Theorem comment_text_is_skipped src t c i :
  tz_state t = LComment -> c <> 10 -> handle_char src t c i = Ok t.
Proof.
  intros Hs Hc. unfold handle_char. rewrite Hs.
  destruct (N.eqb_spec c 10); [contradiction|reflexivity].
Qed.

Theorem comment_ends_at_newline src t i :
  tz_state t = LComment -> handle_char src t 10 i = Ok (set_state t LMain).
Proof. intros Hs. unfold handle_char. rewrite Hs. reflexivity. Qed.

(* a run of whitespace in Main state leaves the tokenizer as it was, whatever the positions *)
Theorem whitespace_run_is_skipped src t (l : list (N * char)) rest :
  tz_state t = LMain -> Forall (fun p => is_whitespace (snd p) = true) l ->
  tokenize_loop src t (l ++ rest) = tokenize_loop src t rest.
Proof.
  intros Hs Hl. induction Hl as [|[i c] l Hc _ IH]; [reflexivity|].
  cbn [app tokenize_loop]. rewrite (whitespace_between_tokens_is_skipped src t c i Hs Hc). cbn [bind]. exact IH.
Qed.

(* a whole comment (after the two slashes) up to and including its newline *)
Theorem comment_run_is_skipped src t (l : list (N * char)) j rest :
  tz_state t = LComment -> Forall (fun p => snd p <> 10) l ->
  tokenize_loop src t (l ++ (j, 10) :: rest) = tokenize_loop src (set_state t LMain) rest.
Proof.
  intros Hs Hl. induction Hl as [|[i c] l Hc _ IH].
  - cbn [app tokenize_loop]. rewrite (comment_ends_at_newline src t j Hs). reflexivity.
  - cbn [app tokenize_loop]. rewrite (comment_text_is_skipped src t c i Hs Hc). cbn [bind]. exact IH.
Qed.

(* ---------- lexical rules (C08): the single-character cases ---------- *)

Theorem punctuation_is_one_token src t c i mk :
  tz_state t = LMain -> single_char_punctuation c = Some mk -> c <> ch ":" ->
  handle_char src t c i = Ok (push t (mk i)).
Proof.
  intros Hs Hp Hc. unfold handle_char. rewrite Hs. unfold handle_main.
  unfold single_char_punctuation in Hp.
  assert (Hcolon : (c =? ch ":") = false) by (apply N.eqb_neq; exact Hc). rewrite Hcolon in Hp.
  repeat match type of Hp with
         | (if ?b then _ else _) = Some _ => let E := fresh "E" in destruct b eqn:E
         end; try discriminate;
    injection Hp as <-;
    repeat match goal with E : (c =? _) = true |- _ => apply N.eqb_eq in E; subst c end;
    reflexivity.
Qed.

Theorem stray_character_is_a_lexical_error src t c i :
  tz_state t = LMain -> is_whitespace c = false -> c <> ch "/" -> is_ascii_alphabetic c = false -> c <> ch "_" ->
  c <> ch "$" -> c <> ch ":" -> c <> ch "#" -> single_char_punctuation c = None ->
  handle_char src t c i = Err (ELex i (Some c)).
Proof.
  intros Hs Hw H1 H2 H3 H4 H5 H6 Hp. unfold handle_char. rewrite Hs. unfold handle_main.
  rewrite Hw, H2, Hp.
  repeat match goal with H : c <> _ |- _ => apply N.eqb_neq in H; rewrite H; clear H end.
  reflexivity.
Qed.

Theorem double_colon_is_one_token src t s i :
  tz_state t = LColon s -> handle_char src t (ch ":") i = Ok (set_state (push t (TDoubleColon s)) LMain).
Proof. intros Hs. unfold handle_char. rewrite Hs. reflexivity. Qed.

Theorem lone_slash_is_an_error src t s c i :
  tz_state t = LSlash s -> c <> ch "/" -> handle_char src t c i = Err (ELex s (Some (ch "/"))).
Proof.
  intros Hs Hc. unfold handle_char. rewrite Hs. apply N.eqb_neq in Hc. rewrite Hc. reflexivity.
Qed.

Theorem newline_inside_attribute_is_an_error src t s n e i :
  tz_state t = LAttr s n e -> handle_char src t 10 i = Err (ELex i (Some 10)).
Proof. intros Hs. unfold handle_char. rewrite Hs. reflexivity. Qed.
