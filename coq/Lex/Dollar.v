(* Lex/Dollar.v — every terminal identifier the tokenizer produces is dollarless
   (remove_dollars is applied to the raw text, and it is idempotent). *)
From Coq Require Import List NArith Bool.
From Kiki Require Import Base.Ord Base.Chars Data DataProofs Ast.ValidateProofs Lex.Model.
Import ListNotations.
Open Scope N_scope.

Definition dollarless (s : str) : Prop := remove_dollars s = s.

Lemma remove_dollars_idem s : remove_dollars (remove_dollars s) = remove_dollars s.
Proof.
  unfold remove_dollars. induction s as [|c s IH]; [reflexivity|]. cbn [filter].
  destruct (negb (c =? ch "$")) eqn:E; [cbn [filter]; rewrite E, IH; reflexivity|exact IH].
Qed.

Definition tokQ (k : token) : Prop := match k with TTerminalIdent i => dollarless (ti_name i) | _ => True end.
Definition outQ (t : tokenizer) : Prop := Forall tokQ (tz_out t).

Lemma reserved_word_tok s mk p : reserved_word s = Some mk -> tokQ (mk p).
Proof.
  unfold reserved_word. repeat (match goal with |- context [if ?b then _ else _] => destruct b end);
    intros H; try discriminate; injection H as <-; exact I.
Qed.

Lemma single_char_tok c mk p : single_char_punctuation c = Some mk -> tokQ (mk p).
Proof.
  unfold single_char_punctuation. repeat (match goal with |- context [if ?b then _ else _] => destruct b end);
    intros H; try discriminate; injection H as <-; exact I.
Qed.

Lemma outQ_set t s : outQ t -> outQ (set_state t s).
Proof. exact (fun H => H). Qed.

Lemma outQ_push t k : outQ t -> tokQ k -> outQ (push t k).
Proof. intros H Hk. constructor; assumption. Qed.

Lemma push_pending_Q src t cur i t' : outQ t -> push_pending src t cur i = Ok t' -> outQ t'.
Proof.
  intros HQ. unfold push_pending. destruct (tz_state t); try discriminate; try (intros H; injection H as <-; exact HQ).
  - intros H. apply bind_ok in H as (name & _ & H). destruct (reserved_word name) as [mk|] eqn:E; injection H as <-.
    + apply outQ_push; [exact HQ|eapply reserved_word_tok; eauto].
    + apply outQ_push; [exact HQ|exact I].
  - intros H. apply bind_ok in H as (raw & _ & H). destruct (reserved_word (remove_dollars raw)); [discriminate|]. injection H as <-.
    apply outQ_push; [exact HQ|]. cbn. apply remove_dollars_idem.
  - intros H; injection H as <-. apply outQ_push; [exact HQ|exact I].
Qed.

Lemma handle_main_Q t c i t' : outQ t -> handle_main t c i = Ok t' -> outQ t'.
Proof.
  intros HQ. unfold handle_main.
  repeat (match goal with |- context [if ?b then _ else _] => destruct b end); try (intros H; injection H as <-; exact HQ).
  destruct (single_char_punctuation c) as [mk|] eqn:E; [|discriminate]. intros H; injection H as <-.
  apply outQ_push; [exact HQ|eapply single_char_tok; eauto].
Qed.

Lemma flush_then_main_Q src t c i t' : outQ t -> flush_then_main src t c i = Ok t' -> outQ t'.
Proof.
  intros HQ H. unfold flush_then_main in H. apply bind_ok in H as (t1 & H1 & H).
  eapply handle_main_Q; [eapply push_pending_Q; eauto|exact H].
Qed.

Lemma finish_outer_attribute_Q src t s e t' : outQ t -> finish_outer_attribute src t s e = Ok t' -> outQ t'.
Proof.
  intros HQ H. unfold finish_outer_attribute in H. apply bind_ok in H as (inner & _ & H). apply bind_ok in H as ([] & _ & H).
  apply bind_ok in H as (whole & _ & H). injection H as <-. apply outQ_push; [exact HQ|exact I].
Qed.

Lemma handle_char_Q src t c i t' : outQ t -> handle_char src t c i = Ok t' -> outQ t'.
Proof.
  intros HQ. unfold handle_char. destruct (tz_state t);
    repeat (match goal with |- context [if ?b then _ else _] => destruct b end);
    try discriminate; try (intros H; injection H as <-; exact HQ);
    try (apply handle_main_Q; exact HQ); try (apply flush_then_main_Q; exact HQ); try (apply finish_outer_attribute_Q; exact HQ).
  intros H; injection H as <-. apply outQ_push; [exact HQ|exact I].
Qed.

Lemma tokenize_loop_Q src l : forall t t', outQ t -> tokenize_loop src t l = Ok t' -> outQ t'.
Proof.
  induction l as [|[i c] l IH]; intros t t' HQ H; cbn [tokenize_loop] in H; [injection H as <-; exact HQ|].
  apply bind_ok in H as (t1 & H1 & H). eapply IH; [eapply handle_char_Q; eauto|exact H].
Qed.

Theorem tokenize_dollarless src toks : tokenize src = Ok toks ->
  forall i, In (TTerminalIdent i) toks -> dollarless (ti_name i).
Proof.
  intros H i Hin. unfold tokenize in H. apply bind_ok in H as (t & Ht & H). apply bind_ok in H as (t' & Ht' & H). injection H as <-.
  apply in_rev in Hin.
  assert (HQ : outQ t') by (eapply push_pending_Q; [eapply tokenize_loop_Q; [|exact Ht]; constructor|exact Ht']).
  unfold outQ in HQ. rewrite Forall_forall in HQ. apply (HQ _ Hin).
Qed.
