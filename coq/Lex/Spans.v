(* Lex/Spans.v — every token the tokenizer produces spans a substring of the source on
   character boundaries: Token::start never underflows and `src[start..end]` of an
   unexpected token is a valid slice (C07, unexpected_token_or_eof_to_kiki_err.rs). *)
From Coq Require Import List Arith NArith Lia Bool.
From Kiki Require Import Base.Ord Base.Chars Data DataProofs Ast.ValidateProofs Ast.Validate Lex.Model Lex.NoPanic Lex.Dollar.
Import ListNotations.
Open Scope N_scope.

Definition tok_span (src : str) (k : token) : Prop :=
  exists pre mid post, src = pre ++ mid ++ post /\ token_start k = Ok (blen pre) /\ token_content_len k = blen mid.

Lemma tok_span_slice src k : tok_span src k ->
  exists s mid, token_start k = Ok s /\ slice src s (s + token_content_len k) = Some mid.
Proof. intros (pre & mid & post & -> & Hs & Hl). exists (blen pre), mid. split; [exact Hs|]. rewrite Hl. apply slice_app. Qed.

Definition st2 (consumed : str) (st : lstate) : Prop :=
  match st with
  | LIdent s e => exists pre mid, consumed = pre ++ mid /\ blen pre = s /\ e = blen consumed
  | LTerminalIdent s e => exists pre rest, consumed = pre ++ ch "$" :: rest /\ blen pre = s /\ e = blen consumed /\
                                           remove_dollars rest = rest
  | LColon i => exists pre, consumed = pre ++ [ch ":"] /\ blen pre = i
  | LAttr s _ e => exists pre mid, consumed = pre ++ ch "#" :: mid /\ blen pre = s /\ e = blen consumed
  | LDollar d => exists pre, consumed = pre ++ [ch "$"] /\ blen pre = d
  | LPound s => exists pre, consumed = pre ++ [ch "#"] /\ blen pre = s
  | _ => True
  end.

Definition inv2 (src consumed : str) (t : tokenizer) : Prop :=
  st2 consumed (tz_state t) /\ Forall (tok_span src) (tz_out t).

Definition res2 (src consumed : str) (r : res tokenizer) : Prop :=
  match r with Ok t' => inv2 src consumed t' | _ => True end.

Lemma st2_st_inv consumed st : st2 consumed st -> st_inv consumed st.
Proof.
  destruct st; cbn; auto.
  intros (pre & rest & Hc & Hs & He & _). exists pre, (ch "$" :: rest). auto.
Qed.

Lemma reserved_word_span name mk : reserved_word name = Some mk ->
  forall s, token_start (mk s) = Ok s /\ token_content_len (mk s) = blen name.
Proof.
  unfold reserved_word.
  repeat (match goal with |- context [if str_eqb name ?l then _ else _] =>
                            let E := fresh "E" in destruct (str_eqb name l) eqn:E; [apply str_eqb_eq in E; subst name|clear E] end);
    intros H; try discriminate; injection H as <-; intros s; split; reflexivity.
Qed.

Lemma single_char_span c mk : single_char_punctuation c = Some mk ->
  len_utf8 c = 1 /\ forall i, token_start (mk i) = Ok i /\ token_content_len (mk i) = 1.
Proof.
  unfold single_char_punctuation.
  repeat (match goal with |- context [if c =? ?l then _ else _] =>
                            let E := fresh "E" in destruct (c =? l) eqn:E; [apply N.eqb_eq in E; subst c|clear E] end);
    intros H; try discriminate; injection H as <-; split; try reflexivity; intros i; split; reflexivity.
Qed.

Lemma ident_char_not_dollar c : is_ascii_alphanumeric c || (c =? ch "_") = true -> negb (c =? ch "$") = true.
Proof.
  intros H. destruct (c =? ch "$") eqn:E; [|reflexivity]. apply N.eqb_eq in E. subst c. vm_compute in H. discriminate.
Qed.

Lemma alpha_not_dollar c : is_ascii_alphabetic c || (c =? ch "_") = true -> negb (c =? ch "$") = true.
Proof.
  intros H. destruct (c =? ch "$") eqn:E; [|reflexivity]. apply N.eqb_eq in E. subst c. vm_compute in H. discriminate.
Qed.

Lemma remove_dollars_snoc rest c : remove_dollars rest = rest -> negb (c =? ch "$") = true -> remove_dollars (rest ++ [c]) = rest ++ [c].
Proof. unfold remove_dollars. intros H Hc. rewrite filter_app. f_equal; [exact H|]. cbn [filter]. unfold char in *. rewrite Hc. reflexivity. Qed.

Lemma span_intro src pre mid post k : src = pre ++ mid ++ post -> token_start k = Ok (blen pre) -> token_content_len k = blen mid ->
  tok_span src k.
Proof. intros. exists pre, mid, post. auto. Qed.

Lemma handle_main2 src consumed c rest t :
  src = consumed ++ c :: rest -> tz_state t = LMain -> Forall (tok_span src) (tz_out t) ->
  res2 src (consumed ++ [c]) (handle_main t c (blen consumed)).
Proof.
  intros Hsrc Hm Hout. unfold handle_main.
  destruct (is_whitespace c); [split; [rewrite Hm; exact I|exact Hout]|].
  destruct (c =? ch "/"); [split; [exact I|exact Hout]|].
  destruct (is_ascii_alphabetic c || (c =? ch "_")).
  { split; [|exact Hout]. cbn [set_state tz_state st2]. exists consumed, [c]. rewrite blen_app. cbn [blen]. split; [reflexivity|]. split; lia. }
  destruct (c =? ch "$") eqn:E.
  { apply N.eqb_eq in E. subst c. split; [|exact Hout]. cbn. exists consumed. auto. }
  destruct (c =? ch ":") eqn:E1.
  { apply N.eqb_eq in E1. subst c. split; [|exact Hout]. cbn. exists consumed. auto. }
  destruct (c =? ch "#") eqn:E2.
  { apply N.eqb_eq in E2. subst c. split; [|exact Hout]. cbn. exists consumed. auto. }
  destruct (single_char_punctuation c) as [mk|] eqn:Ep; [|exact I].
  destruct (single_char_span c mk Ep) as (Hl & Hmk). destruct (Hmk (blen consumed)) as (Hs & Hc).
  split; [cbn [push tz_state]; rewrite Hm; exact I|]. cbn [push tz_out]. constructor; [|exact Hout].
  apply (span_intro src consumed [c] rest); [rewrite Hsrc; reflexivity|exact Hs|]. rewrite Hc. cbn [blen]. lia.
Qed.

Lemma push_pending2 src consumed rest t cur cur_i :
  src = consumed ++ rest -> inv2 src consumed t ->
  match push_pending src t cur cur_i with
  | Ok t' => tz_state t' = LMain /\ Forall (tok_span src) (tz_out t')
  | _ => True
  end.
Proof.
  intros Hsrc (Hinv & Hout). unfold push_pending.
  destruct (tz_state t) as [|i| |s e|i|s e|i|i|s n e]; cbn [st2] in Hinv; try exact I; try (split; [reflexivity|exact Hout]).
  - destruct Hinv as (pre & mid & Hc & Hs & He).
    rewrite (slice_app' src pre mid rest s e); [|subst; rewrite <- app_assoc; reflexivity|auto|subst; rewrite blen_app; reflexivity].
    cbn [unwrap bind]. destruct (reserved_word mid) as [mk|] eqn:Er.
    + split; [reflexivity|]. cbn. constructor; [|exact Hout]. destruct (reserved_word_span mid mk Er s) as (A & B).
      apply (span_intro src pre mid rest); [subst; rewrite <- app_assoc; reflexivity|rewrite Hs; exact A|exact B].
    + split; [reflexivity|]. cbn. constructor; [|exact Hout].
      apply (span_intro src pre mid rest); [subst; rewrite <- app_assoc; reflexivity|cbn; rewrite Hs; reflexivity|reflexivity].
  - destruct Hinv as (pre & rst & Hc & Hs & He & Hd).
    rewrite (slice_app' src pre (ch "$" :: rst) rest s e); [|subst; rewrite <- app_assoc; reflexivity|auto|subst; rewrite blen_app; reflexivity].
    cbn [unwrap bind].
    assert (Hrd : remove_dollars (ch "$" :: rst) = rst) by (unfold remove_dollars in *; cbn; exact Hd).
    rewrite Hrd. destruct (reserved_word rst); [exact I|]. split; [reflexivity|]. cbn [set_state push tz_out]. constructor; [|exact Hout].
    apply (span_intro src pre (ch "$" :: rst) rest); [subst; rewrite <- app_assoc; reflexivity| |].
    + cbn [token_start ti_dpos]. replace (s + 1 <? 1) with false by (symmetry; apply N.ltb_ge; lia).
      f_equal. lia.
    + cbn [token_content_len ti_name blen]. change (len_utf8 (ch "$")) with 1. reflexivity.
  - destruct Hinv as (pre & Hc & Hs). split; [reflexivity|]. cbn. constructor; [|exact Hout].
    apply (span_intro src pre [ch ":"] rest); [subst; rewrite <- app_assoc; reflexivity|cbn; rewrite Hs; reflexivity|reflexivity].
Qed.

Lemma flush_then_main2 src consumed c rest t :
  src = consumed ++ c :: rest -> inv2 src consumed t ->
  res2 src (consumed ++ [c]) (flush_then_main src t c (blen consumed)).
Proof.
  intros Hsrc Hinv. unfold flush_then_main.
  pose proof (push_pending2 src consumed (c :: rest) t (Some c) (blen consumed) Hsrc Hinv) as H.
  destruct (push_pending src t (Some c) (blen consumed)) as [t'|e|s|s]; cbn [bind]; try exact I.
  destruct H as (Hm & Hout). apply (handle_main2 src consumed c rest); assumption.
Qed.

Lemma finish_outer_attribute2 src pre mid rest t s e :
  src = pre ++ (ch "#" :: mid) ++ rest -> blen pre = s -> e = blen (pre ++ ch "#" :: mid) ->
  Forall (tok_span src) (tz_out t) ->
  match finish_outer_attribute src t s e with
  | Ok t' => tz_state t' = LMain /\ Forall (tok_span src) (tz_out t')
  | _ => True
  end.
Proof.
  intros Hsrc Hs He Hout. unfold finish_outer_attribute.
  destruct (slice src (s + 1) e) as [inner|]; cbn [unwrap bind]; [|exact I].
  destruct (check_brackets (char_indices_from (s + 1) inner) []) as [[]|?|?|?]; cbn [bind]; try exact I.
  assert (H2 : slice src s e = Some (ch "#" :: mid)).
  { apply (slice_app' src pre (ch "#" :: mid) rest); [exact Hsrc|auto|]. rewrite He, blen_app. lia. }
  rewrite H2. cbn [unwrap bind]. split; [reflexivity|]. cbn. constructor; [|exact Hout].
  apply (span_intro src pre (ch "#" :: mid) rest); [exact Hsrc|cbn; rewrite Hs; reflexivity|reflexivity].
Qed.

Lemma handle_char2 src consumed c rest t :
  src = consumed ++ c :: rest -> inv2 src consumed t ->
  res2 src (consumed ++ [c]) (handle_char src t c (blen consumed)).
Proof.
  intros Hsrc Hinv. pose proof Hinv as (Hst & Hout). unfold handle_char.
  destruct (tz_state t) as [|i| |s e|i|s e|i|i|s n e] eqn:Est; cbn [st2] in Hst.
  - apply (handle_main2 src consumed c rest); assumption.
  - destruct (c =? ch "/"); [split; [exact I|exact Hout]|exact I].
  - destruct (c =? 10); (split; [cbn; rewrite ?Est; exact I|exact Hout]).
  - destruct (is_ascii_alphanumeric c || (c =? ch "_")).
    + destruct Hst as (pre & mid & Hc & Hs & He). split; [|exact Hout]. cbn [set_state tz_state st2].
      exists pre, (mid ++ [c]). subst. split; [rewrite app_assoc; reflexivity|]. split; [reflexivity|blen_lia].
    + apply (flush_then_main2 src consumed c rest); assumption.
  - destruct (is_ascii_alphabetic c || (c =? ch "_")) eqn:Ea; [|exact I].
    destruct Hst as (pre & Hc & Hs). split; [|exact Hout]. cbn [set_state tz_state st2].
    exists pre, [c]. subst. split; [rewrite <- app_assoc; reflexivity|]. split; [reflexivity|]. split; [blen_lia|].
    apply (remove_dollars_snoc [] c eq_refl), alpha_not_dollar, Ea.
  - destruct (is_ascii_alphanumeric c || (c =? ch "_")) eqn:Ea.
    + destruct Hst as (pre & rst & Hc & Hs & He & Hd). split; [|exact Hout]. cbn [set_state tz_state st2].
      exists pre, (rst ++ [c]). subst. split; [rewrite <- app_assoc; reflexivity|]. split; [reflexivity|]. split; [blen_lia|].
      apply remove_dollars_snoc; [exact Hd|apply ident_char_not_dollar, Ea].
    + apply (flush_then_main2 src consumed c rest); assumption.
  - destruct (c =? ch ":") eqn:E; [|apply (flush_then_main2 src consumed c rest); assumption].
    apply N.eqb_eq in E. subst c. destruct Hst as (pre & Hc & Hs). split; [exact I|]. cbn. constructor; [|exact Hout].
    apply (span_intro src pre [ch ":"; ch ":"] rest); [subst; rewrite <- app_assoc; reflexivity|cbn; rewrite Hs; reflexivity|reflexivity].
  - destruct (c =? ch "[") eqn:E; [|apply (flush_then_main2 src consumed c rest); assumption].
    apply N.eqb_eq in E. subst c. destruct Hst as (pre & Hc & Hs). split; [|exact Hout]. cbn [set_state tz_state st2].
    exists pre, [ch "["]. subst. split; [rewrite <- app_assoc; reflexivity|]. split; [reflexivity|blen_lia].
  - destruct Hst as (pre & mid & Hc & Hs & He).
    assert (Hnext : forall k, inv2 src (consumed ++ [c]) (set_state t (LAttr s k (e + len_utf8 c)))).
    { intros k. split; [|exact Hout]. cbn [set_state tz_state st2]. exists pre, (mid ++ [c]). subst.
      split; [rewrite <- app_assoc; reflexivity|]. split; [reflexivity|blen_lia]. }
    destruct (is_open_bracket c); [apply Hnext|].
    destruct (is_close_bracket c).
    + destruct (n =? 1); [|apply Hnext].
      pose proof (finish_outer_attribute2 src pre (mid ++ [c]) rest t s (e + len_utf8 c)) as Hf.
      assert (Hpre : src = pre ++ (ch "#" :: mid ++ [c]) ++ rest).
      { rewrite Hsrc, Hc. rewrite <- !app_assoc. cbn [app]. rewrite <- app_assoc. reflexivity. }
      assert (He' : e + len_utf8 c = blen (pre ++ ch "#" :: mid ++ [c])) by (subst; blen_lia).
      specialize (Hf Hpre Hs He' Hout).
      destruct (finish_outer_attribute src t s (e + len_utf8 c)) as [t'|err|site|site]; try exact I.
      destruct Hf as (Hm & Ho). split; [rewrite Hm; exact I|exact Ho].
    + destruct (c =? 10); [exact I|apply Hnext].
Qed.

Lemma tokenize_loop2 src : forall rest consumed t,
    src = consumed ++ rest -> inv2 src consumed t ->
    match tokenize_loop src t (char_indices_from (blen consumed) rest) with
    | Ok t' => inv2 src src t'
    | _ => True
    end.
Proof.
  induction rest as [|c rest IH]; intros consumed t Hsrc Hinv; cbn [char_indices_from tokenize_loop].
  - rewrite app_nil_r in Hsrc. subst. exact Hinv.
  - pose proof (handle_char2 src consumed c rest t Hsrc Hinv) as H.
    destruct (handle_char src t c (blen consumed)) as [t'|e|s|s]; cbn [bind res2] in *; try exact I.
    specialize (IH (consumed ++ [c]) t'). rewrite blen_app in IH. cbn [blen] in IH. rewrite N.add_0_r in IH.
    apply IH; [rewrite <- app_assoc; exact Hsrc|exact H].
Qed.

Theorem tokenize_spans src toks : tokenize src = Ok toks -> forall k, In k toks -> tok_span src k.
Proof.
  unfold tokenize, char_indices. intros H k Hin.
  pose proof (tokenize_loop2 src src [] {| tz_out := []; tz_state := LMain |} eq_refl (conj I (Forall_nil _))) as Hl.
  cbn [blen] in Hl.
  destruct (tokenize_loop src {| tz_out := []; tz_state := LMain |} (char_indices_from 0 src)) as [t|e|s|s]; cbn [bind] in H; try discriminate.
  pose proof (push_pending2 src src [] t None (blen src) (eq_sym (app_nil_r src)) Hl) as Hp.
  destruct (push_pending src t None (blen src)) as [t'|e|s|s]; cbn [bind] in H; try discriminate.
  injection H as <-. destruct Hp as (_ & Hout). rewrite Forall_forall in Hout. apply Hout. apply in_rev. exact Hin.
Qed.
