(* Lex/Spec.v — C08: the tokenizer (a character-driven state machine with a pending token)
   computes exactly the documented lexical rules, written here as a scanner `spec` that reads
   one whole lexeme at a time by maximal munch:
     whitespace (Unicode White_Space) and `//` comments to the end of the line are skipped;
     [A-Za-z_][A-Za-z0-9_]* is an identifier, or the reserved word it spells;
     `$` followed by an identifier is a terminal identifier (a reserved word there is an error
       reported just past it); `::` before `:`; the single-character punctuation;
     `#[` ... up to the bracket that closes it on the same line is an attribute, whose brackets
       must match in kind;
     anything else is a lexical error at that character.
   Theorem: tokenize src = spec (S (length src)) 0 src, for every string. *)
From Coq Require Import List Arith NArith Lia Bool.
From Kiki Require Import Base.Ord Base.Chars Data DataProofs Ast.ValidateProofs Lex.Model Lex.NoPanic.
Import ListNotations.
Open Scope N_scope.

(* ---------- the specification ---------- *)

Definition ident_start (c : char) : bool := is_ascii_alphabetic c || (c =? ch "_").
Definition ident_cont (c : char) : bool := is_ascii_alphanumeric c || (c =? ch "_").

Fixpoint span (f : char -> bool) (s : str) : str * str :=
  match s with
  | [] => ([], [])
  | c :: r => if f c then let '(a, b) := span f r in (c :: a, b) else ([], s)
  end.

Definition rmap {A B} (f : A -> B) (r : res A) : res B :=
  match r with Ok a => Ok (f a) | Err e => Err e | Panic s => Panic s | OutOfFuel s => OutOfFuel s end.

Inductive attr_res := AEof | ANl (i : N) | ADone (text : str) (rest : str).

(* scan the inside of an attribute after `#[`: text is accumulated in reverse *)
Fixpoint attr_scan (l : str) (cnt : N) (q : N) (acc : str) : attr_res :=
  match l with
  | [] => AEof
  | c :: r =>
      if is_open_bracket c then attr_scan r (cnt + 1) (q + len_utf8 c) (c :: acc)
      else if is_close_bracket c then
        if cnt =? 1 then ADone (rev (c :: acc)) r
        else attr_scan r (cnt - 1) (q + len_utf8 c) (c :: acc)
      else if c =? 10 then ANl q
      else attr_scan r cnt (q + len_utf8 c) (c :: acc)
  end.

Fixpoint spec (fuel : nat) (p : N) (s : str) : res (list token) :=
  match fuel with
  | O => OutOfFuel "spec"
  | S f =>
      match s with
      | [] => Ok []
      | c :: r =>
          if is_whitespace c then spec f (p + len_utf8 c) r
          else if c =? ch "/" then
            match r with
            | c2 :: r2 =>
                if c2 =? ch "/" then
                  let '(body, rest) := span (fun x => negb (x =? 10)) r2 in
                  match rest with
                  | [] => Ok []
                  | nl :: rest' => spec f (p + 2 + blen body + 1) rest'
                  end
                else Err (ELex p (Some (ch "/")))
            | [] => Err (ELex p (Some (ch "/")))
            end
          else if ident_start c then
            let '(more, rest) := span ident_cont r in
            let name := c :: more in
            let tok := match reserved_word name with
                       | Some mk => mk p
                       | None => TIdent {| id_name := name; id_pos := p |}
                       end in
            rmap (cons tok) (spec f (p + blen name) rest)
          else if c =? ch "$" then
            match r with
            | c2 :: r2 =>
                if ident_start c2 then
                  let '(more, rest) := span ident_cont r2 in
                  let name := c2 :: more in
                  match reserved_word name with
                  | Some _ => Err (ELex (p + 1 + blen name) (hd_error rest))
                  | None => rmap (cons (TTerminalIdent {| ti_name := name; ti_dpos := p + 1 |}))
                                 (spec f (p + 1 + blen name) rest)
                  end
                else Err (ELex p (Some (ch "$")))
            | [] => Err (ELex p (Some (ch "$")))
            end
          else if c =? ch ":" then
            match r with
            | c2 :: r2 =>
                if c2 =? ch ":" then rmap (cons (TDoubleColon p)) (spec f (p + 2) r2)
                else rmap (cons (TColon p)) (spec f (p + 1) r)
            | [] => Ok [TColon p]
            end
          else if c =? ch "#" then
            match r with
            | c2 :: r2 =>
                if c2 =? ch "[" then
                  match attr_scan r2 1 (p + 2) [ch "["] with
                  | AEof => Err (ELex (p + blen s) None)
                  | ANl q => Err (ELex q (Some 10))
                  | ADone inner rest =>
                      match check_brackets (char_indices_from (p + 1) inner) [] with
                      | Ok _ => rmap (cons (TOuterAttribute {| at_src := ch "#" :: inner; at_pos := p |}))
                                     (spec f (p + 1 + blen inner) rest)
                      | Err e => Err e
                      | Panic x => Panic x
                      | OutOfFuel x => OutOfFuel x
                      end
                  end
                else Err (ELex p (Some (ch "#")))
            | [] => Err (ELex p (Some (ch "#")))
            end
          else
            match single_char_punctuation c with
            | Some mk => rmap (cons (mk p)) (spec f (p + len_utf8 c) r)
            | None => Err (ELex p (Some c))
            end
      end
  end.

(* ---------- the tokenizer, as a function of the remaining input ---------- *)

Definition finish (src : str) (t : tokenizer) : res (list token) :=
  do t' <- push_pending src t None (blen src); Ok (rev (tz_out t')).

Definition run (src : str) (t : tokenizer) (l : list (N * char)) : res (list token) :=
  do t1 <- tokenize_loop src t l; finish src t1.

Lemma run_cons src t i c l : run src t ((i, c) :: l) = do t' <- handle_char src t c i; run src t' l.
Proof. unfold run. cbn [tokenize_loop]. destruct (handle_char src t c i); reflexivity. Qed.

Lemma tokenize_run src : tokenize src = run src {| tz_out := []; tz_state := LMain |} (char_indices src).
Proof. reflexivity. Qed.

Notation cif := char_indices_from.

Lemma span_app f s a b : span f s = (a, b) -> s = a ++ b /\ forallb f a = true /\ match b with [] => True | c :: _ => f c = false end.
Proof.
  revert a b; induction s as [|c s IH]; intros a b H; cbn in H.
  - injection H as <- <-. auto.
  - destruct (f c) eqn:E.
    + destruct (span f s) as [a' b'] eqn:Es. injection H as <- <-. destruct (IH a' b' eq_refl) as (-> & Hf & Hb).
      split; [reflexivity|]. split; [cbn; rewrite E; exact Hf|exact Hb].
    + injection H as <- <-. split; [reflexivity|]. split; [reflexivity|exact E].
Qed.

Lemma span_length f s a b : span f s = (a, b) -> (length b <= length s)%nat.
Proof. intros H. apply span_app in H as (-> & _). rewrite app_length. lia. Qed.

Lemma cif_app a b p : cif p (a ++ b) = cif p a ++ cif (p + blen a) b.
Proof. apply char_indices_from_app. Qed.

Lemma rmap_rmap {A B C} (f : A -> B) (g : B -> C) r : rmap g (rmap f r) = rmap (fun x => g (f x)) r.
Proof. destruct r; reflexivity. Qed.

Lemma rmap_ext {A B} (f g : A -> B) r : (forall x, f x = g x) -> rmap f r = rmap g r.
Proof. intros H. destruct r; cbn; [rewrite H|..]; reflexivity. Qed.

(* ---------- runs inside a pending token ---------- *)

Section Runs.
  Variable src : str.

  (* identifier: the run of continuation characters *)
  Lemma ident_run more : forall pre name rest t,
      src = pre ++ name ++ more ++ rest -> tz_state t = LIdent (blen pre) (blen pre + blen name) ->
      forallb ident_cont more = true ->
      tokenize_loop src t (cif (blen pre + blen name) (more ++ rest)) =
      tokenize_loop src (set_state t (LIdent (blen pre) (blen pre + blen (name ++ more)))) (cif (blen pre + blen (name ++ more)) rest).
  Proof.
    induction more as [|c more IH]; intros pre name rest t Hsrc Hst Hall.
    - rewrite app_nil_r. cbn [app]. destruct t as [out st]. cbn in Hst. subst st. reflexivity.
    - cbn in Hall. apply andb_true_iff in Hall as (Hc & Hall). cbn [app cif tokenize_loop].
      unfold handle_char. rewrite Hst. unfold ident_cont in Hc. rewrite Hc. cbn [bind].
      specialize (IH pre (name ++ [c]) rest (set_state t (LIdent (blen pre) (blen pre + blen name + len_utf8 c)))).
      rewrite !blen_app in IH. cbn [blen] in IH. rewrite N.add_0_r in IH. rewrite <- !app_assoc in IH. cbn [app] in IH.
      rewrite !N.add_assoc in IH. rewrite IH; [|exact Hsrc|reflexivity|exact Hall].
      rewrite !blen_app. cbn [blen]. rewrite !N.add_assoc. reflexivity.
  Qed.

  Lemma tident_run more : forall pre name rest t,
      src = pre ++ name ++ more ++ rest -> tz_state t = LTerminalIdent (blen pre) (blen pre + blen name) ->
      forallb ident_cont more = true ->
      tokenize_loop src t (cif (blen pre + blen name) (more ++ rest)) =
      tokenize_loop src (set_state t (LTerminalIdent (blen pre) (blen pre + blen (name ++ more)))) (cif (blen pre + blen (name ++ more)) rest).
  Proof.
    induction more as [|c more IH]; intros pre name rest t Hsrc Hst Hall.
    - rewrite app_nil_r. cbn [app]. destruct t as [out st]. cbn in Hst. subst st. reflexivity.
    - cbn in Hall. apply andb_true_iff in Hall as (Hc & Hall). cbn [app cif tokenize_loop].
      unfold handle_char. rewrite Hst. unfold ident_cont in Hc. rewrite Hc. cbn [bind].
      specialize (IH pre (name ++ [c]) rest (set_state t (LTerminalIdent (blen pre) (blen pre + blen name + len_utf8 c)))).
      rewrite !blen_app in IH. cbn [blen] in IH. rewrite N.add_0_r in IH. rewrite <- !app_assoc in IH. cbn [app] in IH.
      rewrite !N.add_assoc in IH. rewrite IH; [|exact Hsrc|reflexivity|exact Hall].
      rewrite !blen_app. cbn [blen]. rewrite !N.add_assoc. reflexivity.
  Qed.

  (* at the boundary of a pending token: flush it, then go on from Main with the same character *)
  Lemma boundary_run t c i l t' : push_pending src t (Some c) i = Ok t' -> tz_state t' = LMain ->
    (handle_char src t c i = do t1 <- push_pending src t (Some c) i; handle_main t1 c i) ->
    run src t ((i, c) :: l) = run src t' ((i, c) :: l).
  Proof.
    intros Hp Hm Hh. rewrite !run_cons. rewrite Hh, Hp. cbn [bind]. unfold handle_char. rewrite Hm. reflexivity.
  Qed.

  (* comment: skip to the newline or to the end *)
  Lemma comment_run body : forall p t, tz_state t = LComment -> forallb (fun x => negb (x =? 10)) body = true ->
    forall rest, tokenize_loop src t (cif p (body ++ rest)) = tokenize_loop src t (cif (p + blen body) rest).
  Proof.
    induction body as [|c body IH]; intros p t Hst Hall rest; [cbn; rewrite N.add_0_r; reflexivity|].
    cbn in Hall. apply andb_true_iff in Hall as (Hc & Hall). cbn [app cif tokenize_loop]. unfold handle_char. rewrite Hst.
    apply negb_true_iff in Hc. rewrite Hc. cbn [bind]. rewrite (IH _ t Hst Hall). cbn [blen]. rewrite N.add_assoc. reflexivity.
  Qed.
End Runs.

(* ---------- small facts ---------- *)

Lemma blen_one c : blen [c] = len_utf8 c.
Proof. cbn. lia. Qed.

Lemma filter_all {A} (f : A -> bool) l : forallb f l = true -> filter f l = l.
Proof. induction l as [|x l IH]; [reflexivity|]. cbn. intros H. apply andb_true_iff in H as (Hx & Hl). rewrite Hx, (IH Hl). reflexivity. Qed.

Lemma ident_cont_no_dollar s : forallb ident_cont s = true -> remove_dollars s = s.
Proof.
  intros H. unfold remove_dollars. apply filter_all. rewrite forallb_forall in *. intros c Hc. specialize (H c Hc).
  destruct (c =? ch "$") eqn:E; [|reflexivity]. apply N.eqb_eq in E. subst c. vm_compute in H. discriminate.
Qed.

Lemma ident_start_cont c : ident_start c = true -> ident_cont c = true.
Proof.
  unfold ident_start, ident_cont, is_ascii_alphanumeric. intros H. apply orb_true_iff in H as [H|H]; [rewrite H; reflexivity|].
  rewrite H. apply orb_true_r.
Qed.

(* ---------- attribute scanning ---------- *)

Section Attr.
  Variable src : str.

  (* the state while scanning: `pre # acc...` has been read, q bytes in *)
  Lemma attr_run l : forall pre acc cnt t,
      src = pre ++ (ch "#" :: rev acc) ++ l -> tz_state t = LAttr (blen pre) cnt (blen pre + 1 + blen (rev acc)) ->
      match attr_scan l cnt (blen pre + 1 + blen (rev acc)) acc with
      | AEof => exists t', tokenize_loop src t (cif (blen pre + 1 + blen (rev acc)) l) = Ok t' /\
                           exists c e, tz_state t' = LAttr (blen pre) c e
      | ANl q => tokenize_loop src t (cif (blen pre + 1 + blen (rev acc)) l) = Err (ELex q (Some 10))
      | ADone inner rest =>
          exists mid, l = mid ++ rest /\ inner = rev acc ++ mid /\
          tokenize_loop src t (cif (blen pre + 1 + blen (rev acc)) l) =
          do t1 <- finish_outer_attribute src t (blen pre) (blen pre + 1 + blen inner);
          tokenize_loop src t1 (cif (blen pre + 1 + blen inner) rest)
      end.
  Proof.
    induction l as [|c l IH]; intros pre acc cnt t Hsrc Hst; cbn [attr_scan].
    - exists t. split; [reflexivity|eauto].
    - assert (Hstep : forall cnt', src = pre ++ (ch "#" :: rev (c :: acc)) ++ l /\
                                   tz_state (set_state t (LAttr (blen pre) cnt' (blen pre + 1 + blen (rev acc) + len_utf8 c)))
                                   = LAttr (blen pre) cnt' (blen pre + 1 + blen (rev (c :: acc)))).
      { intros cnt'. split.
        - rewrite Hsrc. cbn [rev]. f_equal. cbn [app]. f_equal. rewrite <- app_assoc. reflexivity.
        - cbn [set_state tz_state rev]. rewrite blen_app, blen_one. f_equal. lia. }
      assert (Hq : blen pre + 1 + blen (rev acc) + len_utf8 c = blen pre + 1 + blen (rev (c :: acc))).
      { cbn [rev]. rewrite blen_app, blen_one. lia. }
      assert (Hlift : forall cnt' st',
                 match attr_scan l cnt' (blen pre + 1 + blen (rev (c :: acc))) (c :: acc) with
                 | AEof => exists t', tokenize_loop src (set_state t st') (cif (blen pre + 1 + blen (rev (c :: acc))) l) = Ok t' /\
                                      exists c0 e, tz_state t' = LAttr (blen pre) c0 e
                 | ANl q => tokenize_loop src (set_state t st') (cif (blen pre + 1 + blen (rev (c :: acc))) l) = Err (ELex q (Some 10))
                 | ADone inner rest =>
                     exists mid, l = mid ++ rest /\ inner = rev (c :: acc) ++ mid /\
                     tokenize_loop src (set_state t st') (cif (blen pre + 1 + blen (rev (c :: acc))) l) =
                     do t1 <- finish_outer_attribute src (set_state t st') (blen pre) (blen pre + 1 + blen inner);
                     tokenize_loop src t1 (cif (blen pre + 1 + blen inner) rest)
                 end ->
                 match attr_scan l cnt' (blen pre + 1 + blen (rev (c :: acc))) (c :: acc) with
                 | AEof => exists t', tokenize_loop src (set_state t st') (cif (blen pre + 1 + blen (rev (c :: acc))) l) = Ok t' /\
                                      exists c0 e, tz_state t' = LAttr (blen pre) c0 e
                 | ANl q => tokenize_loop src (set_state t st') (cif (blen pre + 1 + blen (rev (c :: acc))) l) = Err (ELex q (Some 10))
                 | ADone inner rest =>
                     exists mid, c :: l = mid ++ rest /\ inner = rev acc ++ mid /\
                     tokenize_loop src (set_state t st') (cif (blen pre + 1 + blen (rev (c :: acc))) l) =
                     do t1 <- finish_outer_attribute src t (blen pre) (blen pre + 1 + blen inner);
                     tokenize_loop src t1 (cif (blen pre + 1 + blen inner) rest)
                 end).
      { intros cnt' st' H. destruct (attr_scan l cnt' _ (c :: acc)) as [|q|inner rest]; try exact H.
        destruct H as (mid & -> & -> & Hl). exists (c :: mid). split; [reflexivity|]. split; [cbn [rev]; rewrite <- app_assoc; reflexivity|exact Hl]. }
      cbn [cif tokenize_loop]. unfold handle_char. rewrite Hst.
      destruct (is_open_bracket c) eqn:Eo.
      { cbn [bind]. destruct (Hstep (cnt + 1)) as (Hs' & Hst'). specialize (IH pre (c :: acc) (cnt + 1) _ Hs' Hst').
        rewrite Hq in IH |- *. apply Hlift, IH. }
      destruct (is_close_bracket c) eqn:Ec.
      { destruct (cnt =? 1) eqn:E1.
        - exists [c]. split; [reflexivity|]. split; [reflexivity|]. cbn [rev]. rewrite blen_app, blen_one.
          replace (blen pre + 1 + (blen (rev acc) + len_utf8 c)) with (blen pre + 1 + blen (rev acc) + len_utf8 c) by lia. reflexivity.
        - cbn [bind]. destruct (Hstep (cnt - 1)) as (Hs' & Hst'). specialize (IH pre (c :: acc) (cnt - 1) _ Hs' Hst').
          rewrite Hq in IH |- *. apply Hlift, IH. }
      destruct (c =? 10) eqn:En.
      { apply N.eqb_eq in En. subst c. reflexivity. }
      cbn [bind]. destruct (Hstep cnt) as (Hs' & Hst'). specialize (IH pre (c :: acc) cnt _ Hs' Hst').
      rewrite Hq in IH |- *. apply Hlift, IH.
  Qed.
End Attr.

(* ---------- the theorem ---------- *)

Section Main.
  Variable src : str.

  Lemma finish_main t : tz_state t = LMain -> finish src t = Ok (rev (tz_out t)).
  Proof. intros H. unfold finish, push_pending. rewrite H. reflexivity. Qed.

  Definition ident_token (name : str) (p : N) : token :=
    match reserved_word name with Some mk => mk p | None => TIdent {| id_name := name; id_pos := p |} end.

  Lemma push_pending_ident pre name rest t cur i :
    src = pre ++ name ++ rest -> tz_state t = LIdent (blen pre) (blen pre + blen name) ->
    push_pending src t cur i = Ok (set_state (push t (ident_token name (blen pre))) LMain).
  Proof.
    intros Hsrc Hst. unfold push_pending. rewrite Hst.
    rewrite (slice_app' src pre name rest _ _ Hsrc eq_refl eq_refl). cbn [unwrap bind]. unfold ident_token.
    destruct (reserved_word name); reflexivity.
  Qed.

  Lemma push_pending_tident pre name rest t cur i :
    src = pre ++ (ch "$" :: name) ++ rest -> tz_state t = LTerminalIdent (blen pre) (blen pre + blen (ch "$" :: name)) ->
    forallb ident_cont name = true ->
    push_pending src t cur i =
    match reserved_word name with
    | Some _ => Err (ELex i cur)
    | None => Ok (set_state (push t (TTerminalIdent {| ti_name := name; ti_dpos := blen pre + 1 |})) LMain)
    end.
  Proof.
    intros Hsrc Hst Hn. unfold push_pending. rewrite Hst.
    rewrite (slice_app' src pre (ch "$" :: name) rest _ _ Hsrc eq_refl eq_refl). cbn [unwrap bind].
    assert (E : remove_dollars (ch "$" :: name) = name).
    { unfold remove_dollars. cbn [filter]. change (negb (ch "$" =? ch "$")) with false. cbv iota. apply (ident_cont_no_dollar name Hn). }
    rewrite E. destruct (reserved_word name); reflexivity.
  Qed.

  Lemma rmap_app_cons (out : list token) (tok : token) (r : res (list token)) :
    rmap (app (rev (tok :: out))) r = rmap (app (rev out)) (rmap (cons tok) r).
  Proof. rewrite rmap_rmap. apply rmap_ext. intros x. cbn [rev]. rewrite <- app_assoc. reflexivity. Qed.

  Theorem run_is_spec : forall fuel rest consumed t,
      src = consumed ++ rest -> tz_state t = LMain -> (length rest < fuel)%nat ->
      run src t (cif (blen consumed) rest) = rmap (app (rev (tz_out t))) (spec fuel (blen consumed) rest).
  Proof.
    induction fuel as [|f IH]; intros rest consumed t Hsrc Hm Hlen; [lia|].
    destruct rest as [|c r].
    { cbn [cif spec rmap]. unfold run. cbn [tokenize_loop bind]. rewrite (finish_main t Hm), app_nil_r. reflexivity. }
    assert (Hnext : forall (mid : str) (rest' : str) (t' : tokenizer),
               c :: r = mid ++ rest' -> mid <> [] -> tz_state t' = LMain ->
               run src t' (cif ((blen consumed) + blen mid) rest') = rmap (app (rev (tz_out t'))) (spec f ((blen consumed) + blen mid) rest')).
    { intros mid rest' t' Hsplit Hne Hm'. rewrite <- blen_app. apply IH.
      - rewrite Hsrc, Hsplit, app_assoc. reflexivity.
      - exact Hm'.
      - assert (length (c :: r) = length mid + length rest')%nat by (rewrite Hsplit, app_length; reflexivity).
        destruct mid; [contradiction|]. cbn [length] in *. lia. }
    cbn [cif]. rewrite run_cons. unfold handle_char at 1. rewrite Hm. unfold handle_main. cbn [spec].
    (* whitespace *)
    destruct (is_whitespace c) eqn:Ews.
    { cbn [bind]. rewrite <- (blen_one c). apply (Hnext [c] r t); [reflexivity|discriminate|exact Hm]. }
    (* slash *)
    destruct (c =? ch "/") eqn:Esl.
    { apply N.eqb_eq in Esl. subst c. cbn [bind]. destruct r as [|c2 r2].
      - cbn [cif]. unfold run. cbn [tokenize_loop bind]. unfold finish, push_pending. reflexivity.
      - cbn [cif]. rewrite run_cons. unfold handle_char at 1. cbn [set_state tz_state].
        destruct (c2 =? ch "/") eqn:E2; [|reflexivity]. apply N.eqb_eq in E2. subst c2. cbn [bind].
        destruct (span (fun x => negb (x =? 10)) r2) as [body rest'] eqn:Es.
        destruct (span_app _ _ _ _ Es) as (-> & Hbody & Hb).
        unfold run. rewrite (comment_run src body _ (set_state (set_state t (LSlash (blen consumed))) LComment) eq_refl Hbody).
        destruct rest' as [|nl rest''].
        + cbn [cif tokenize_loop bind]. unfold finish, push_pending. cbn [set_state tz_state bind tz_out rmap]. rewrite ?app_nil_r. reflexivity.
        + apply negb_false_iff, N.eqb_eq in Hb. subst nl. cbn [cif tokenize_loop]. unfold handle_char at 1. cbn [set_state tz_state].
          change (10 =? 10) with true. cbn [bind].
          assert (Hsplit : ch "/" :: ch "/" :: body ++ 10 :: rest'' = (ch "/" :: ch "/" :: body ++ [10]) ++ rest'')
            by (cbn [app]; rewrite <- app_assoc; reflexivity).
          pose proof (Hnext (ch "/" :: ch "/" :: body ++ [10]) rest'' (set_state (set_state (set_state t (LSlash (blen consumed))) LComment) LMain) Hsplit ltac:(discriminate) eq_refl) as Hn.
          unfold run in Hn. cbn [blen] in Hn. rewrite blen_app, blen_one in Hn. change (len_utf8 (ch "/")) with 1 in Hn. change (len_utf8 10) with 1 in Hn |- *.
          replace ((blen consumed) + (1 + (1 + (blen body + 1)))) with ((blen consumed) + 1 + 1 + blen body + 1) in Hn by lia.
          replace ((blen consumed) + 2 + blen body + 1) with ((blen consumed) + 1 + 1 + blen body + 1) by lia. exact Hn. }
    (* identifier *)
    destruct (is_ascii_alphabetic c || (c =? ch "_")) eqn:Eid.
    { cbn [bind]. change (ident_start c) with (is_ascii_alphabetic c || (c =? ch "_")). rewrite Eid.
      destruct (span ident_cont r) as [more rest'] eqn:Es. destruct (span_app _ _ _ _ Es) as (-> & Hmore & Hb).
      assert (Hsrc' : src = consumed ++ [c] ++ more ++ rest') by (rewrite Hsrc; reflexivity).
      unfold run. rewrite <- (blen_one c).
      pose proof (ident_run src more consumed [c] rest' (set_state t (LIdent (blen consumed) ((blen consumed) + blen [c]))) Hsrc' eq_refl Hmore) as Hr.
      rewrite Hr. clear Hr.
      set (tI := set_state (set_state t (LIdent (blen consumed) ((blen consumed) + blen [c]))) (LIdent (blen consumed) ((blen consumed) + blen ([c] ++ more)))).
      assert (HstI : tz_state tI = LIdent (blen consumed) (blen consumed + blen (c :: more))) by reflexivity.
      assert (Hsrc'' : src = consumed ++ (c :: more) ++ rest') by (rewrite Hsrc; reflexivity).
      fold (ident_token (c :: more) (blen consumed)).
      destruct rest' as [|c' r''].
      - cbn [cif tokenize_loop bind]. unfold finish. rewrite (push_pending_ident consumed (c :: more) [] tI None _ Hsrc'' HstI). cbn [bind set_state push tz_out].
        destruct f as [|f']; [cbn in Hlen; lia|]. cbn [spec rmap]. cbn [rev]. reflexivity.
      - pose proof (push_pending_ident consumed (c :: more) (c' :: r'') tI (Some c') (blen consumed + blen ([c] ++ more)) Hsrc'' HstI) as Hpp.
        fold (run src tI (cif (blen consumed + blen ([c] ++ more)) (c' :: r''))). cbn [cif].
        rewrite (boundary_run src tI c' _ _ _ Hpp eq_refl).
        2:{ unfold handle_char. rewrite HstI. cbn in Hb. unfold ident_cont in Hb. rewrite Hb. reflexivity. }
        pose proof (Hnext (c :: more) (c' :: r'') (set_state (push tI (ident_token (c :: more) (blen consumed))) LMain) eq_refl ltac:(discriminate) eq_refl) as Hn.
        cbn [cif] in Hn. change ([c] ++ more) with (c :: more). rewrite Hn. cbn [set_state push tz_out].
        apply rmap_app_cons. }
    (* the rest: one case at a time *)
    destruct (c =? ch "$") eqn:Edl.
    { apply N.eqb_eq in Edl. subst c. cbn [bind]. change (ident_start (ch "$")) with false. cbv iota.
      destruct r as [|c2 r2].
      - cbn [cif]. unfold run. cbn [tokenize_loop bind]. unfold finish, push_pending. reflexivity.
      - cbn [cif]. rewrite run_cons. unfold handle_char at 1. cbn [set_state tz_state].
        change (ident_start c2) with (is_ascii_alphabetic c2 || (c2 =? ch "_")).
        destruct (is_ascii_alphabetic c2 || (c2 =? ch "_")) eqn:E2; [|reflexivity]. cbn [bind].
        destruct (span ident_cont r2) as [more rest'] eqn:Es. destruct (span_app _ _ _ _ Es) as (-> & Hmore & Hb).
        assert (Hname : forallb ident_cont (c2 :: more) = true).
        { cbn. rewrite (ident_start_cont c2 E2). exact Hmore. }
        assert (Hsrc' : src = consumed ++ [ch "$"; c2] ++ more ++ rest') by (rewrite Hsrc; reflexivity).
        unfold run. change (len_utf8 (ch "$")) with 1.
        replace ((blen consumed) + 1 + len_utf8 c2) with (blen consumed + blen [ch "$"; c2]) by (cbn [blen]; change (len_utf8 (ch "$")) with 1; lia).
        rewrite (tident_run src more consumed [ch "$"; c2] rest' _ Hsrc');
          [|cbn [set_state tz_state blen]; change (len_utf8 (ch "$")) with 1; f_equal; lia|exact Hmore].
        set (tT := set_state _ (LTerminalIdent (blen consumed) (blen consumed + blen ([ch "$"; c2] ++ more)))).
        assert (HstT : tz_state tT = LTerminalIdent (blen consumed) (blen consumed + blen (ch "$" :: c2 :: more))) by reflexivity.
        assert (Hsrc'' : src = consumed ++ (ch "$" :: c2 :: more) ++ rest') by (rewrite Hsrc; reflexivity).
        assert (Hpos : blen consumed + blen ([ch "$"; c2] ++ more) = (blen consumed) + 1 + blen (c2 :: more)).
        { cbn [app blen]. change (len_utf8 (ch "$")) with 1. lia. }
        destruct rest' as [|c' r''].
        + cbn [cif tokenize_loop bind]. unfold finish.
          rewrite (push_pending_tident consumed (c2 :: more) [] tT None _ Hsrc'' HstT Hname).
          assert (Hend : blen src = (blen consumed) + 1 + blen (c2 :: more)).
          { rewrite Hsrc. rewrite blen_app. cbn [app blen]. rewrite app_nil_r. change (len_utf8 (ch "$")) with 1. lia. }
          destruct (reserved_word (c2 :: more)); cbn [bind hd_error rmap]; [rewrite Hend; reflexivity|].
          cbn [set_state push tz_out]. destruct f as [|f']; [cbn in Hlen; lia|]. cbn [spec rmap rev]. reflexivity.
        + pose proof (push_pending_tident consumed (c2 :: more) (c' :: r'') tT (Some c') (blen consumed + blen ([ch "$"; c2] ++ more)) Hsrc'' HstT Hname) as Hpp.
          destruct (reserved_word (c2 :: more)) eqn:Er.
          * cbn [cif tokenize_loop]. unfold handle_char at 1. rewrite HstT. cbn in Hb. unfold ident_cont in Hb. rewrite Hb.
            unfold flush_then_main. rewrite Hpp. cbn [bind hd_error]. rewrite Hpos. reflexivity.
          * fold (run src tT (cif (blen consumed + blen ([ch "$"; c2] ++ more)) (c' :: r''))). cbn [cif].
            rewrite (boundary_run src tT c' _ _ _ Hpp eq_refl).
            2:{ unfold handle_char. rewrite HstT. cbn in Hb. unfold ident_cont in Hb. rewrite Hb. reflexivity. }
            pose proof (Hnext (ch "$" :: c2 :: more) (c' :: r'') (set_state (push tT (TTerminalIdent {| ti_name := c2 :: more; ti_dpos := blen consumed + 1 |})) LMain) eq_refl ltac:(discriminate) eq_refl) as Hn.
            cbn [cif] in Hn.
            replace ((blen consumed) + blen (ch "$" :: c2 :: more)) with ((blen consumed) + 1 + blen (c2 :: more)) in Hn by (cbn [blen]; change (len_utf8 (ch "$")) with 1; lia).
            rewrite Hpos. rewrite Hn. cbn [set_state push tz_out]. apply rmap_app_cons. }
    destruct (c =? ch ":") eqn:Ecl.
    { apply N.eqb_eq in Ecl. subst c. cbn [bind]. change (ident_start (ch ":")) with false. cbv iota.
      destruct r as [|c2 r2].
      - cbn [cif]. unfold run. cbn [tokenize_loop bind]. unfold finish, push_pending. cbn [set_state tz_state bind push tz_out rev rmap]. reflexivity.
      - cbn [cif]. change (len_utf8 (ch ":")) with 1. destruct (c2 =? ch ":") eqn:E2.
        + apply N.eqb_eq in E2. subst c2. rewrite run_cons. unfold handle_char at 1. cbn [set_state tz_state]. change (ch ":" =? ch ":") with true. cbn [bind].
          pose proof (Hnext [ch ":"; ch ":"] r2 (set_state (push (set_state t (LColon (blen consumed))) (TDoubleColon (blen consumed))) LMain) eq_refl ltac:(discriminate) eq_refl) as Hn.
          cbn [blen] in Hn. change (len_utf8 (ch ":")) with 1 in Hn |- *. replace ((blen consumed) + (1 + (1 + 0))) with ((blen consumed) + 1 + 1) in Hn by lia.
          replace ((blen consumed) + 2) with ((blen consumed) + 1 + 1) by lia. rewrite Hn. cbn [set_state push tz_out]. apply rmap_app_cons.
        + set (tC := set_state t (LColon (blen consumed))).
          assert (Hpp : push_pending src tC (Some c2) ((blen consumed) + 1) = Ok (set_state (push tC (TColon (blen consumed))) LMain)) by reflexivity.
          rewrite (boundary_run src tC c2 _ _ _ Hpp eq_refl).
          2:{ unfold handle_char. cbn [tC set_state tz_state]. rewrite E2. reflexivity. }
          pose proof (Hnext [ch ":"] (c2 :: r2) (set_state (push tC (TColon (blen consumed))) LMain) eq_refl ltac:(discriminate) eq_refl) as Hn.
          cbn [blen cif] in Hn. change (len_utf8 (ch ":")) with 1 in Hn. replace ((blen consumed) + (1 + 0)) with ((blen consumed) + 1) in Hn by lia.
          rewrite Hn. cbn [set_state push tz_out]. apply rmap_app_cons. }
    destruct (c =? ch "#") eqn:Epd.
    { apply N.eqb_eq in Epd. subst c. cbn [bind]. change (ident_start (ch "#")) with false. cbv iota.
      destruct r as [|c2 r2].
      - cbn [cif]. unfold run. cbn [tokenize_loop bind]. unfold finish, push_pending. reflexivity.
      - cbn [cif]. change (len_utf8 (ch "#")) with 1. rewrite run_cons. unfold handle_char at 1. cbn [set_state tz_state].
        destruct (c2 =? ch "[") eqn:E2.
        2:{ unfold flush_then_main, push_pending. cbn [set_state tz_state bind]. reflexivity. }
        apply N.eqb_eq in E2. subst c2. cbn [bind]. change (len_utf8 (ch "[")) with 1.
        set (tA := set_state (set_state t (LPound (blen consumed))) (LAttr (blen consumed) 1 ((blen consumed) + 1 + 1))).
        assert (HsrcA : src = consumed ++ (ch "#" :: rev [ch "["]) ++ r2) by (rewrite Hsrc; reflexivity).
        assert (HstA : tz_state tA = LAttr (blen consumed) 1 (blen consumed + 1 + blen (rev [ch "["]))) by reflexivity.
        pose proof (attr_run src r2 consumed [ch "["] 1 tA HsrcA HstA) as Hrun.
        change (blen consumed + 1 + blen (rev [ch "["])) with ((blen consumed) + 1 + 1) in Hrun. replace ((blen consumed) + 2) with ((blen consumed) + 1 + 1) by lia.
        destruct (attr_scan r2 1 ((blen consumed) + 1 + 1) [ch "["]) as [|q|inner rest'] eqn:Esc.
        + destruct Hrun as (t' & Hl & cc & ee & Hst'). unfold run. rewrite Hl. cbn [bind]. unfold finish, push_pending. rewrite Hst'. cbn [bind rmap].
          f_equal. f_equal. rewrite Hsrc, blen_app. reflexivity.
        + unfold run. rewrite Hrun. reflexivity.
        + destruct Hrun as (mid & -> & -> & Hl). unfold run. rewrite Hl. clear Hl.
          assert (Hsl1 : slice src ((blen consumed) + 1) ((blen consumed) + 1 + blen (rev [ch "["] ++ mid)) = Some (rev [ch "["] ++ mid)).
          { apply (slice_app' src (consumed ++ [ch "#"]) (rev [ch "["] ++ mid) rest').
            - rewrite Hsrc. rewrite <- !app_assoc. reflexivity.
            - rewrite blen_app. cbn [blen]. change (len_utf8 (ch "#")) with 1. lia.
            - rewrite (blen_app consumed). cbn [blen]. change (len_utf8 (ch "#")) with 1. lia. }
          assert (Hsl2 : slice src (blen consumed) ((blen consumed) + 1 + blen (rev [ch "["] ++ mid)) = Some (ch "#" :: rev [ch "["] ++ mid)).
          { apply (slice_app' src consumed (ch "#" :: rev [ch "["] ++ mid) rest').
            - rewrite Hsrc. cbn [app]. rewrite <- app_assoc. reflexivity.
            - reflexivity.
            - cbn [blen]. change (len_utf8 (ch "#")) with 1. lia. }
          unfold finish_outer_attribute. rewrite Hsl1. cbn [unwrap bind].
          destruct (check_brackets (cif ((blen consumed) + 1) (rev [ch "["] ++ mid)) []) as [[]|e|x|x]; cbn [bind rmap]; try reflexivity.
          rewrite Hsl2. cbn [unwrap bind].
          pose proof (Hnext (ch "#" :: rev [ch "["] ++ mid) rest'
                            (push (set_state tA LMain) (TOuterAttribute {| at_src := ch "#" :: rev [ch "["] ++ mid; at_pos := (blen consumed) |}))
                            ltac:(cbn [app]; rewrite <- app_assoc; reflexivity) ltac:(discriminate) eq_refl) as Hn.
          unfold run in Hn. cbn [blen] in Hn. change (len_utf8 (ch "#")) with 1 in Hn. rewrite N.add_assoc in Hn.
          rewrite Hn. cbn [set_state push tz_out]. apply rmap_app_cons. }
    (* punctuation *)
    change (ident_start c) with (is_ascii_alphabetic c || (c =? ch "_")). rewrite Eid.
    destruct (single_char_punctuation c) as [mk|] eqn:Ep; [|reflexivity]. cbn [bind].
    pose proof (Hnext [c] r (push t (mk (blen consumed))) eq_refl ltac:(discriminate) Hm) as Hn. rewrite blen_one in Hn.
    rewrite Hn. cbn [push tz_out]. apply rmap_app_cons.
  Qed.
End Main.

(* C08: the tokenizer is the documented lexical specification, on every string *)
Theorem tokenize_is_spec src : tokenize src = spec (S (length src)) 0 src.
Proof.
  rewrite tokenize_run. unfold char_indices.
  pose proof (run_is_spec src (S (length src)) src [] {| tz_out := []; tz_state := LMain |} eq_refl eq_refl ltac:(lia)) as H.
  cbn [tz_out rev blen] in H. rewrite H. destruct (spec (S (length src)) 0 src); reflexivity.
Qed.

(* ---------- consequences (C16): layout only shifts positions ---------- *)

Lemma attr_scan_rest l : forall cnt q acc inner rest, attr_scan l cnt q acc = ADone inner rest -> (length rest < length l)%nat.
Proof.
  induction l as [|c l IH]; intros cnt q acc inner rest H; cbn [attr_scan] in H; [discriminate|].
  destruct (is_open_bracket c); [apply IH in H; cbn; lia|].
  destruct (is_close_bracket c).
  - destruct (cnt =? 1); [injection H as _ <-; cbn; lia|apply IH in H; cbn; lia].
  - destruct (c =? 10); [discriminate|apply IH in H; cbn; lia].
Qed.

(* enough fuel is enough *)
Lemma spec_fuel : forall f f' p s, (length s < f)%nat -> (length s < f')%nat -> spec f p s = spec f' p s.
Proof.
  induction f as [|f IH]; intros f' p s Hf Hf'; [lia|]. destruct f' as [|f']; [lia|].
  destruct s as [|c r]; [reflexivity|]. cbn [length] in Hf, Hf'. cbn [spec].
  destruct (is_whitespace c); [apply IH; lia|].
  destruct (c =? ch "/").
  { destruct r as [|c2 r2]; [reflexivity|]. destruct (c2 =? ch "/"); [|reflexivity].
    destruct (span (fun x => negb (x =? 10)) r2) as [body rest] eqn:Es. pose proof (span_length _ _ _ _ Es).
    destruct rest as [|nl rest']; [reflexivity|]. cbn [length] in *. apply IH; lia. }
  destruct (ident_start c).
  { destruct (span ident_cont r) as [more rest] eqn:Es. pose proof (span_length _ _ _ _ Es). f_equal. apply IH; lia. }
  destruct (c =? ch "$").
  { destruct r as [|c2 r2]; [reflexivity|]. destruct (ident_start c2); [|reflexivity].
    destruct (span ident_cont r2) as [more rest] eqn:Es. pose proof (span_length _ _ _ _ Es). cbn [length] in *.
    destruct (reserved_word (c2 :: more)); [reflexivity|]. f_equal. apply IH; lia. }
  destruct (c =? ch ":").
  { destruct r as [|c2 r2]; [reflexivity|]. cbn [length] in *. destruct (c2 =? ch ":"); f_equal; apply IH; cbn [length]; lia. }
  destruct (c =? ch "#").
  { destruct r as [|c2 r2]; [reflexivity|]. destruct (c2 =? ch "["); [|reflexivity].
    destruct (attr_scan r2 1 (p + 2) [ch "["]) as [|q|inner rest] eqn:Ea; try reflexivity.
    pose proof (attr_scan_rest _ _ _ _ _ _ Ea). cbn [length] in *.
    destruct (check_brackets (char_indices_from (p + 1) inner) []); try reflexivity. f_equal. apply IH; lia. }
  destruct (single_char_punctuation c); [|reflexivity]. f_equal. apply IH; lia.
Qed.

Definition lex (p : N) (s : str) : res (list token) := spec (S (length s)) p s.

Theorem tokenize_is_lex src : tokenize src = lex 0 src.
Proof. apply tokenize_is_spec. Qed.

(* whitespace in front produces no token and moves what follows *)
Theorem lex_skips_whitespace p c s : is_whitespace c = true -> lex p (c :: s) = lex (p + len_utf8 c) s.
Proof.
  intros H. unfold lex. cbn [length]. remember (S (length s)) as f eqn:Ef. cbn [spec]. rewrite H. apply spec_fuel; subst; lia.
Qed.

(* a comment up to and including its line break produces no token *)
Lemma span_to_newline body s : forallb (fun x => negb (x =? 10)) body = true ->
  span (fun x => negb (x =? 10)) (body ++ 10 :: s) = (body, 10 :: s).
Proof.
  intros Hb. induction body as [|c body IH]; [reflexivity|]. cbn in Hb. apply andb_true_iff in Hb as (Hc & Hb).
  cbn [app span]. rewrite Hc, (IH Hb). reflexivity.
Qed.

Lemma spec_comment f p body s : forallb (fun x => negb (x =? 10)) body = true ->
  spec (S f) p (ch "/" :: ch "/" :: body ++ 10 :: s) = spec f (p + 2 + blen body + 1) s.
Proof.
  intros Hb. cbn [spec]. change (is_whitespace (ch "/")) with false. change (ch "/" =? ch "/") with true. cbv iota.
  rewrite (span_to_newline body s Hb). reflexivity.
Qed.

Theorem lex_skips_comment p body s : forallb (fun x => negb (x =? 10)) body = true ->
  lex p (ch "/" :: ch "/" :: body ++ 10 :: s) = lex (p + 2 + blen body + 1) s.
Proof.
  intros Hb. unfold lex. rewrite (spec_comment _ p body s Hb). apply spec_fuel; cbn [length]; rewrite ?app_length; cbn [length]; unfold str, char in *; lia.
Qed.

(* a comment that runs to the end of the file produces no token either *)
Theorem lex_comment_at_eof p body : forallb (fun x => negb (x =? 10)) body = true ->
  lex p (ch "/" :: ch "/" :: body) = Ok [].
Proof.
  intros Hb. unfold lex. cbn [length]. remember (S (length body)) as f eqn:Ef.
  cbn [spec]. change (is_whitespace (ch "/")) with false. change (ch "/" =? ch "/") with true. cbv iota.
  assert (Es : span (fun x => negb (x =? 10)) body = (body, [])).
  { clear -Hb. induction body as [|c body IH]; [reflexivity|]. cbn in Hb. apply andb_true_iff in Hb as (Hc & Hb).
    cbn [span]. rewrite Hc, (IH Hb). reflexivity. }
  rewrite Es. reflexivity.
Qed.

(* ---------- positions only shift ---------- *)

Definition shift_tok (d : N) (t : token) : token :=
  match t with
  | TUnderscore p => TUnderscore (p + d)
  | TIdent i => TIdent {| id_name := id_name i; id_pos := id_pos i + d |}
  | TTerminalIdent i => TTerminalIdent {| ti_name := ti_name i; ti_dpos := ti_dpos i + d |}
  | TOuterAttribute a => TOuterAttribute {| at_src := at_src a; at_pos := at_pos a + d |}
  | TStartKw p => TStartKw (p + d) | TStructKw p => TStructKw (p + d) | TEnumKw p => TEnumKw (p + d)
  | TTerminalKw p => TTerminalKw (p + d)
  | TColon p => TColon (p + d) | TDoubleColon p => TDoubleColon (p + d) | TComma p => TComma (p + d)
  | TLParen p => TLParen (p + d) | TRParen p => TRParen (p + d) | TLCurly p => TLCurly (p + d)
  | TRCurly p => TRCurly (p + d) | TLAngle p => TLAngle (p + d) | TRAngle p => TRAngle (p + d)
  end.

Definition shift_err (d : N) (e : kiki_err) : kiki_err :=
  match e with ELex i c => ELex (i + d) c | _ => e end.

Definition rshift {A} (f : A -> A) (d : N) (r : res A) : res A :=
  match r with Ok a => Ok (f a) | Err e => Err (shift_err d e) | Panic s => Panic s | OutOfFuel s => OutOfFuel s end.

Lemma reserved_word_shift name mk p d : reserved_word name = Some mk -> shift_tok d (mk p) = mk (p + d).
Proof.
  unfold reserved_word.
  repeat (match goal with |- context [if ?b then _ else _] => destruct b end); intros H; try discriminate; injection H as <-; reflexivity.
Qed.

Lemma single_char_shift c mk p d : single_char_punctuation c = Some mk -> shift_tok d (mk p) = mk (p + d).
Proof.
  unfold single_char_punctuation.
  repeat (match goal with |- context [if ?b then _ else _] => destruct b end); intros H; try discriminate; injection H as <-; reflexivity.
Qed.

Lemma check_brackets_shift d l : forall q st,
  check_brackets (char_indices_from (q + d) l) st = rshift (fun u => u) d (check_brackets (char_indices_from q l) st).
Proof.
  induction l as [|c l IH]; intros q st; cbn [char_indices_from check_brackets]; [reflexivity|].
  replace (q + d + len_utf8 c) with (q + len_utf8 c + d) by lia.
  destruct (is_open_bracket c); [apply IH|]. destruct (is_close_bracket c); [|apply IH].
  destruct st as [|top st']; [reflexivity|]. destruct (brackets_match top c); [apply IH|reflexivity].
Qed.

Lemma attr_scan_shift d l : forall cnt q acc,
  attr_scan l cnt (q + d) acc = match attr_scan l cnt q acc with ANl i => ANl (i + d) | r => r end.
Proof.
  induction l as [|c l IH]; intros cnt q acc; cbn [attr_scan]; [reflexivity|].
  replace (q + d + len_utf8 c) with (q + len_utf8 c + d) by lia.
  destruct (is_open_bracket c); [apply IH|]. destruct (is_close_bracket c); [destruct (cnt =? 1); [reflexivity|apply IH]|].
  destruct (c =? 10); [reflexivity|apply IH].
Qed.

Lemma rshift_rmap_cons d tok r :
  rshift (map (shift_tok d)) d (rmap (cons tok) r) = rmap (cons (shift_tok d tok)) (rshift (map (shift_tok d)) d r).
Proof. destruct r; reflexivity. Qed.

(* the same text further to the right gives the same tokens and the same error, further to the right *)
Theorem spec_shift d : forall f p s, spec f (p + d) s = rshift (map (shift_tok d)) d (spec f p s).
Proof.
  induction f as [|f IH]; intros p s; [reflexivity|]. destruct s as [|c r]; [reflexivity|]. cbn [spec].
  destruct (is_whitespace c).
  { replace (p + d + len_utf8 c) with (p + len_utf8 c + d) by lia. apply IH. }
  destruct (c =? ch "/").
  { destruct r as [|c2 r2]; [reflexivity|]. destruct (c2 =? ch "/"); [|reflexivity].
    destruct (span (fun x => negb (x =? 10)) r2) as [body rest]. destruct rest as [|nl rest']; [reflexivity|].
    replace (p + d + 2 + blen body + 1) with (p + 2 + blen body + 1 + d) by lia. apply IH. }
  destruct (ident_start c).
  { destruct (span ident_cont r) as [more rest].
    replace (p + d + blen (c :: more)) with (p + blen (c :: more) + d) by lia. rewrite IH, rshift_rmap_cons. do 2 f_equal.
    destruct (reserved_word (c :: more)) as [mk|] eqn:E; [symmetry; apply (reserved_word_shift _ _ _ _ E)|reflexivity]. }
  destruct (c =? ch "$").
  { destruct r as [|c2 r2]; [reflexivity|]. destruct (ident_start c2); [|reflexivity].
    destruct (span ident_cont r2) as [more rest].
    destruct (reserved_word (c2 :: more)).
    - cbn [rshift shift_err]. do 2 f_equal. lia.
    - replace (p + d + 1 + blen (c2 :: more)) with (p + 1 + blen (c2 :: more) + d) by lia. rewrite IH, rshift_rmap_cons.
      cbn [shift_tok ti_name ti_dpos]. replace (p + 1 + d) with (p + d + 1) by lia. reflexivity. }
  destruct (c =? ch ":").
  { destruct r as [|c2 r2]; [reflexivity|]. destruct (c2 =? ch ":").
    - replace (p + d + 2) with (p + 2 + d) by lia. rewrite IH, rshift_rmap_cons. reflexivity.
    - replace (p + d + 1) with (p + 1 + d) by lia. rewrite IH, rshift_rmap_cons. reflexivity. }
  destruct (c =? ch "#").
  { destruct r as [|c2 r2]; [reflexivity|]. destruct (c2 =? ch "["); [|reflexivity].
    replace (p + d + 2) with (p + 2 + d) by lia. rewrite attr_scan_shift.
    destruct (attr_scan r2 1 (p + 2) [ch "["]) as [|q|inner rest].
    - cbn [rshift shift_err]. do 2 f_equal. lia.
    - reflexivity.
    - replace (p + d + 1) with (p + 1 + d) by lia. rewrite check_brackets_shift.
      destruct (check_brackets (char_indices_from (p + 1) inner) []); try reflexivity.
      cbn [rshift]. replace (p + 1 + d + blen inner) with (p + 1 + blen inner + d) by lia. rewrite IH, rshift_rmap_cons.
      cbn [shift_tok at_src at_pos]. reflexivity. }
  destruct (single_char_punctuation c) as [mk|] eqn:E; [|reflexivity].
  replace (p + d + len_utf8 c) with (p + len_utf8 c + d) by lia. rewrite IH, rshift_rmap_cons. do 2 f_equal.
  symmetry. apply (single_char_shift _ _ _ _ E).
Qed.

Theorem lex_shift p s : lex p s = rshift (map (shift_tok p)) p (lex 0 s).
Proof. unfold lex. rewrite <- (spec_shift p (S (length s)) 0 s). reflexivity. Qed.

(* ---------- every token is the text at its position ---------- *)

Definition lexeme (t : token) : str :=
  match t with
  | TUnderscore _ => s2l "_"
  | TIdent i => id_name i
  | TTerminalIdent i => ch "$" :: ti_name i
  | TOuterAttribute a => at_src a
  | TStartKw _ => s2l "start" | TStructKw _ => s2l "struct" | TEnumKw _ => s2l "enum" | TTerminalKw _ => s2l "terminal"
  | TColon _ => s2l ":" | TDoubleColon _ => s2l "::" | TComma _ => s2l ","
  | TLParen _ => s2l "(" | TRParen _ => s2l ")" | TLCurly _ => s2l "{" | TRCurly _ => s2l "}"
  | TLAngle _ => s2l "<" | TRAngle _ => s2l ">"
  end.

Definition tok_pos (t : token) : N :=
  match t with
  | TUnderscore p => p
  | TIdent i => id_pos i
  | TTerminalIdent i => ti_dpos i - 1
  | TOuterAttribute a => at_pos a
  | TStartKw p | TStructKw p | TEnumKw p | TTerminalKw p
  | TColon p | TDoubleColon p | TComma p | TLParen p | TRParen p | TLCurly p | TRCurly p | TLAngle p | TRAngle p => p
  end.

(* the token sits at byte offset `tok_pos` of the text starting at offset p, and its text is there *)
Definition placed (p : N) (s : str) (t : token) : Prop :=
  exists pre post, s = pre ++ lexeme t ++ post /\ tok_pos t = p + blen pre.

Lemma placed_shift p s t pre0 : placed (p + blen pre0) s t -> placed p (pre0 ++ s) t.
Proof.
  intros (pre & post & -> & Hp). exists (pre0 ++ pre), post. split; [rewrite <- app_assoc; reflexivity|].
  rewrite blen_app, Hp. lia.
Qed.

Lemma reserved_word_lexeme name mk p : reserved_word name = Some mk -> lexeme (mk p) = name /\ tok_pos (mk p) = p.
Proof.
  unfold reserved_word.
  repeat (match goal with |- context [if str_eqb name ?l then _ else _] =>
                            let E := fresh "E" in destruct (str_eqb name l) eqn:E; [apply str_eqb_eq in E; subst name|clear E] end);
    intros H; try discriminate; injection H as <-; split; reflexivity.
Qed.

Lemma single_char_lexeme c mk p : single_char_punctuation c = Some mk -> lexeme (mk p) = [c] /\ tok_pos (mk p) = p.
Proof.
  unfold single_char_punctuation.
  repeat (match goal with |- context [if c =? ?l then _ else _] =>
                            let E := fresh "E" in destruct (c =? l) eqn:E; [apply N.eqb_eq in E; subst c|clear E] end);
    intros H; try discriminate; injection H as <-; split; reflexivity.
Qed.

Lemma attr_scan_text l : forall cnt q acc inner rest, attr_scan l cnt q acc = ADone inner rest ->
  exists mid, l = mid ++ rest /\ inner = rev acc ++ mid.
Proof.
  induction l as [|c l IH]; intros cnt q acc inner rest H; cbn [attr_scan] in H; [discriminate|].
  assert (Hstep : forall cnt' q', attr_scan l cnt' q' (c :: acc) = ADone inner rest -> exists mid, c :: l = mid ++ rest /\ inner = rev acc ++ mid).
  { intros cnt' q' H'. destruct (IH _ _ _ _ _ H') as (mid & -> & ->). exists (c :: mid). split; [reflexivity|]. cbn [rev]. rewrite <- app_assoc. reflexivity. }
  destruct (is_open_bracket c); [eapply Hstep; eauto|].
  destruct (is_close_bracket c).
  - destruct (cnt =? 1); [|eapply Hstep; eauto]. injection H as <- <-. exists [c]. split; [reflexivity|]. reflexivity.
  - destruct (c =? 10); [discriminate|eapply Hstep; eauto].
Qed.

Lemma rmap_cons_Forall (tok : token) (r : res (list token)) toks : rmap (cons tok) r = Ok toks ->
  exists toks', r = Ok toks' /\ toks = tok :: toks'.
Proof. destruct r; cbn; intros H; try discriminate. injection H as <-. eauto. Qed.

Theorem spec_placed : forall f p s toks, spec f p s = Ok toks -> forall t, In t toks -> placed p s t.
Proof.
  induction f as [|f IH]; intros p s toks H t Hin; [discriminate|]. destruct s as [|c r]; [injection H as <-; destruct Hin|]. cbn [spec] in H.
  assert (Hrec : forall (pre0 : str) (rest : str) toks', c :: r = pre0 ++ rest -> spec f (p + blen pre0) rest = Ok toks' -> In t toks' -> placed p (c :: r) t).
  { intros pre0 rest toks' Hsplit Hs Ht. rewrite Hsplit. apply placed_shift. apply (IH _ _ _ Hs t Ht). }
  assert (Htok : forall (tok : token) (lex rest : str) toks', c :: r = lex ++ rest -> lexeme tok = lex -> tok_pos tok = p ->
                   spec f (p + blen lex) rest = Ok toks' -> toks = tok :: toks' -> placed p (c :: r) t).
  { intros tok lex rest toks' Hsplit Hl Hp Hs ->. destruct Hin as [<-|Ht]; [|apply (Hrec lex rest toks' Hsplit Hs Ht)].
    exists [], rest. split; [rewrite Hl; exact Hsplit|]. rewrite Hp. cbn. lia. }
  destruct (is_whitespace c).
  { apply (Hrec [c] r toks eq_refl); [rewrite blen_one; exact H|exact Hin]. }
  destruct (c =? ch "/") eqn:Esl.
  { apply N.eqb_eq in Esl. subst c. destruct r as [|c2 r2]; [discriminate|]. destruct (c2 =? ch "/") eqn:E2; [|discriminate].
    apply N.eqb_eq in E2. subst c2. destruct (span (fun x => negb (x =? 10)) r2) as [body rest] eqn:Es.
    destruct (span_app _ _ _ _ Es) as (-> & _ & Hb). destruct rest as [|nl rest']; [injection H as <-; destruct Hin|].
    apply (Hrec (ch "/" :: ch "/" :: body ++ [nl]) rest' toks); [cbn [app]; rewrite <- app_assoc; reflexivity| |exact Hin].
    apply negb_false_iff, N.eqb_eq in Hb. subst nl. cbn [blen]. rewrite blen_app, blen_one. change (len_utf8 (ch "/")) with 1. change (len_utf8 10) with 1.
    replace (p + (1 + (1 + (blen body + 1)))) with (p + 2 + blen body + 1) by lia. exact H. }
  destruct (ident_start c).
  { destruct (span ident_cont r) as [more rest] eqn:Es. destruct (span_app _ _ _ _ Es) as (-> & _ & _).
    apply rmap_cons_Forall in H as (toks' & Hs & Ht).
    destruct (reserved_word (c :: more)) as [mk|] eqn:Er.
    - destruct (reserved_word_lexeme _ _ p Er) as (Hl & Hp). apply (Htok (mk p) (c :: more) rest toks' eq_refl Hl Hp Hs Ht).
    - apply (Htok (TIdent {| id_name := c :: more; id_pos := p |}) (c :: more) rest toks' eq_refl eq_refl eq_refl Hs Ht). }
  destruct (c =? ch "$") eqn:Edl.
  { apply N.eqb_eq in Edl. subst c. destruct r as [|c2 r2]; [discriminate|]. destruct (ident_start c2); [|discriminate].
    destruct (span ident_cont r2) as [more rest] eqn:Es. destruct (span_app _ _ _ _ Es) as (-> & _ & _).
    destruct (reserved_word (c2 :: more)); [discriminate|].
    apply rmap_cons_Forall in H as (toks' & Hs & Ht).
    apply (Htok (TTerminalIdent {| ti_name := c2 :: more; ti_dpos := p + 1 |}) (ch "$" :: c2 :: more) rest toks' eq_refl eq_refl); [cbn; lia| |exact Ht].
    cbn [blen]. change (len_utf8 (ch "$")) with 1. rewrite N.add_assoc. exact Hs. }
  destruct (c =? ch ":") eqn:Ecl.
  { apply N.eqb_eq in Ecl. subst c. destruct r as [|c2 r2].
    - injection H as <-. destruct Hin as [<-|[]]. exists [], []. split; [reflexivity|cbn; lia].
    - destruct (c2 =? ch ":") eqn:E2.
      + apply N.eqb_eq in E2. subst c2. apply rmap_cons_Forall in H as (toks' & Hs & Ht).
        apply (Htok (TDoubleColon p) [ch ":"; ch ":"] r2 toks' eq_refl eq_refl eq_refl); [|exact Ht]. cbn [blen]. change (len_utf8 (ch ":")) with 1.
        replace (p + (1 + (1 + 0))) with (p + 2) by lia. exact Hs.
      + apply rmap_cons_Forall in H as (toks' & Hs & Ht).
        apply (Htok (TColon p) [ch ":"] (c2 :: r2) toks' eq_refl eq_refl eq_refl); [|exact Ht]. rewrite blen_one. exact Hs. }
  destruct (c =? ch "#") eqn:Epd.
  { apply N.eqb_eq in Epd. subst c. destruct r as [|c2 r2]; [discriminate|]. destruct (c2 =? ch "[") eqn:E2; [|discriminate].
    apply N.eqb_eq in E2. subst c2. destruct (attr_scan r2 1 (p + 2) [ch "["]) as [|q|inner rest] eqn:Ea; try discriminate.
    destruct (attr_scan_text _ _ _ _ _ _ Ea) as (mid & -> & ->).
    destruct (check_brackets _ []) as [[]| | |]; try discriminate.
    apply rmap_cons_Forall in H as (toks' & Hs & Ht).
    apply (Htok (TOuterAttribute {| at_src := ch "#" :: rev [ch "["] ++ mid; at_pos := p |}) (ch "#" :: rev [ch "["] ++ mid) rest toks'); [cbn [rev app]; reflexivity|reflexivity|reflexivity| |exact Ht].
    cbn [blen]. change (len_utf8 (ch "#")) with 1. rewrite N.add_assoc. exact Hs. }
  destruct (single_char_punctuation c) as [mk|] eqn:Ep; [|discriminate].
  apply rmap_cons_Forall in H as (toks' & Hs & Ht).
  destruct (single_char_lexeme c mk p Ep) as (Hl & Hp).
  apply (Htok (mk p) [c] r toks' eq_refl Hl Hp); [rewrite blen_one; exact Hs|exact Ht].
Qed.

(* C08/C12: every token the tokenizer returns is the text found at its own byte offset in the source *)
Theorem tokens_are_where_they_say src toks : tokenize src = Ok toks ->
  forall t, In t toks -> exists pre post, src = pre ++ lexeme t ++ post /\ tok_pos t = blen pre.
Proof.
  rewrite tokenize_is_spec. intros H t Hin. destruct (spec_placed _ _ _ _ H t Hin) as (pre & post & Hs & Hp).
  exists pre, post. split; [exact Hs|]. rewrite Hp. lia.
Qed.
