(* Lex/IdentShape.v — every identifier token the tokenizer produces is a non-empty run of
   identifier characters (used by C13: the identifiers of a payload type are such tokens). *)
From Coq Require Import List NArith Bool Lia.
From Kiki Require Import Base.Ord Base.Chars Data Lex.Model Lex.Spec Ast.TypeText.
Import ListNotations.
Open Scope N_scope.

Lemma ident_start_char c : ident_start c = true -> ident_char c = true.
Proof.
  unfold ident_start, ident_char, is_ascii_alphanumeric. intros H. apply orb_true_iff in H as [H|H].
  - rewrite H. reflexivity.
  - rewrite H. apply orb_true_r.
Qed.

Lemma spec_ident_shape : forall fuel p s toks, spec fuel p s = Ok toks ->
  forall i, In (TIdent i) toks -> name_ok (id_name i).
Proof.
  induction fuel as [|f IH]; intros p s toks H i Hin; [discriminate|]. cbn [spec] in H.
  destruct s as [|c r]; [injection H as <-; destruct Hin|].
  destruct (is_whitespace c); [exact (IH _ _ _ H i Hin)|].
  destruct (c =? ch "/").
  { destruct r as [|c2 r2]; [discriminate|]. destruct (c2 =? ch "/"); [|discriminate].
    destruct (span (fun x => negb (x =? 10)) r2) as [body rest]. destruct rest as [|nl rest']; [injection H as <-; destruct Hin|].
    exact (IH _ _ _ H i Hin). }
  destruct (ident_start c) eqn:Es.
  { destruct (span ident_cont r) as [more rest] eqn:Esp.
    destruct (spec f (p + blen (c :: more)) rest) as [tl| | |] eqn:Et; cbn [rmap] in H; try discriminate. injection H as <-.
    destruct Hin as [E|Hin]; [|exact (IH _ _ _ Et i Hin)].
    destruct (reserved_word (c :: more)) as [mk|] eqn:Er.
    - exfalso. unfold reserved_word in Er.
      repeat match type of Er with (if ?b then _ else _) = _ => destruct b; [injection Er as <-; discriminate|] end. discriminate.
    - injection E as <-. cbn [id_name]. split; [discriminate|]. cbn [forallb]. rewrite (ident_start_char c Es). cbn [andb].
      destruct (span_app _ _ _ _ Esp) as (_ & Hall & _). unfold ident_cont in Hall. exact Hall. }
  destruct (c =? ch "$").
  { destruct r as [|c2 r2]; [discriminate|]. destruct (ident_start c2); [|discriminate].
    destruct (span ident_cont r2) as [more rest]. destruct (reserved_word (c2 :: more)); [discriminate|].
    destruct (spec f _ rest) as [tl| | |] eqn:Et; cbn [rmap] in H; try discriminate. injection H as <-.
    destruct Hin as [E|Hin]; [discriminate|exact (IH _ _ _ Et i Hin)]. }
  destruct (c =? ch ":").
  { destruct r as [|c2 r2]; [injection H as <-; destruct Hin as [E|[]]; discriminate|].
    destruct (c2 =? ch ":").
    - destruct (spec f _ r2) as [tl| | |] eqn:Et; cbn [rmap] in H; try discriminate. injection H as <-.
      destruct Hin as [E|Hin]; [discriminate|exact (IH _ _ _ Et i Hin)].
    - destruct (spec f _ (c2 :: r2)) as [tl| | |] eqn:Et; cbn [rmap] in H; try discriminate. injection H as <-.
      destruct Hin as [E|Hin]; [discriminate|exact (IH _ _ _ Et i Hin)]. }
  destruct (c =? ch "#").
  { destruct r as [|c2 r2]; [discriminate|]. destruct (c2 =? ch "["); [|discriminate].
    destruct (attr_scan r2 1 (p + 2) [ch "["]) as [|q|inner rest]; try discriminate.
    destruct (check_brackets _ []) as [u| | |]; try discriminate.
    destruct (spec f _ rest) as [tl| | |] eqn:Et; cbn [rmap] in H; try discriminate. injection H as <-.
    destruct Hin as [E|Hin]; [discriminate|exact (IH _ _ _ Et i Hin)]. }
  destruct (single_char_punctuation c) as [mk|] eqn:Ep; [|discriminate].
  destruct (spec f _ r) as [tl| | |] eqn:Et; cbn [rmap] in H; try discriminate. injection H as <-.
  destruct Hin as [E|Hin]; [|exact (IH _ _ _ Et i Hin)].
  exfalso. unfold single_char_punctuation in Ep.
  repeat match type of Ep with (if ?b then _ else _) = _ => destruct b; [injection Ep as <-; discriminate|] end. discriminate.
Qed.

Theorem tokenize_ident_shape src toks : tokenize src = Ok toks -> forall i, In (TIdent i) toks -> name_ok (id_name i).
Proof. rewrite tokenize_is_spec. apply spec_ident_shape. Qed.
