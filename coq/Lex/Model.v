(* Lex/Model.v — executable model of kiki/src/pipeline/tokenize.rs, function by
   function.  `self.out` is kept in reverse.  No proofs. *)
From Kiki Require Import Base.Ord Base.Chars Data.
Open Scope N_scope.

Inductive lstate :=
| LMain
| LSlash (i : N)
| LComment
| LIdent (s e : N)
| LDollar (i : N)
| LTerminalIdent (s e : N)
| LColon (i : N)
| LPound (i : N)
| LAttr (s : N) (left_count : N) (e : N).

Record tokenizer := { tz_out : list token; tz_state : lstate }.

Definition set_state (t : tokenizer) (s : lstate) : tokenizer :=
  {| tz_out := tz_out t; tz_state := s |}.
Definition push (t : tokenizer) (k : token) : tokenizer :=
  {| tz_out := k :: tz_out t; tz_state := tz_state t |}.

Definition reserved_word (s : str) : option (N -> token) :=
  if str_eqb s (s2l "_") then Some TUnderscore
  else if str_eqb s (s2l "start") then Some TStartKw
  else if str_eqb s (s2l "struct") then Some TStructKw
  else if str_eqb s (s2l "enum") then Some TEnumKw
  else if str_eqb s (s2l "terminal") then Some TTerminalKw
  else None.

Definition single_char_punctuation (c : char) : option (N -> token) :=
  if c =? ch ":" then Some TColon
  else if c =? ch "," then Some TComma
  else if c =? ch "(" then Some TLParen
  else if c =? ch ")" then Some TRParen
  else if c =? ch "{" then Some TLCurly
  else if c =? ch "}" then Some TRCurly
  else if c =? ch "<" then Some TLAngle
  else if c =? ch ">" then Some TRAngle
  else None.

Definition is_open_bracket (c : char) : bool := (c =? ch "(") || (c =? ch "[") || (c =? ch "{").
Definition is_close_bracket (c : char) : bool := (c =? ch ")") || (c =? ch "]") || (c =? ch "}").
Definition brackets_match (o c : char) : bool :=
  ((o =? ch "(") && (c =? ch ")")) || ((o =? ch "[") && (c =? ch "]")) || ((o =? ch "{") && (c =? ch "}")).

(* DollarlessTerminalName::remove_dollars *)
Definition remove_dollars (s : str) : str := filter (fun c => negb (c =? ch "$")) s.

(* the bracket-kind check of finish_outer_attribute over `src[bracket_start..end]`;
   positions are absolute (repaired: the crate reported them relative to bracket_start) *)
Fixpoint check_brackets (l : list (N * char)) (stack : list char) : res unit :=
  match l with
  | [] => Ok tt
  | (i, c) :: r =>
      if is_open_bracket c then check_brackets r (c :: stack)
      else if is_close_bracket c then
        match stack with
        | [] => Err (ELex i (Some c))
        | top :: stack' =>
            if brackets_match top c then check_brackets r stack'
            else Err (ELex i (Some c))
        end
      else check_brackets r stack
  end.

Definition finish_outer_attribute (src : str) (t : tokenizer) (s e : N) : res tokenizer :=
  let bracket_start := s + 1 in
  do inner <- unwrap "finish_outer_attribute: slice bracket_start..end" (slice src bracket_start e);
  do _ <- check_brackets (char_indices_from bracket_start inner) [];
  do whole <- unwrap "finish_outer_attribute: slice start..end" (slice src s e);
  Ok (push (set_state t LMain) (TOuterAttribute {| at_src := whole; at_pos := s |})).

(* push_pending_token_and_reset_state(current, current_index) *)
Definition push_pending (src : str) (t : tokenizer) (cur : option char) (cur_i : N) : res tokenizer :=
  match tz_state t with
  | LMain => Ok (set_state t LMain)
  | LSlash i => Err (ELex i (Some (ch "/")))
  | LComment => Ok (set_state t LMain)
  | LIdent s e =>
      do name <- unwrap "push_pending: slice ident" (slice src s e);
      match reserved_word name with
      | Some mk => Ok (set_state (push t (mk s)) LMain)
      | None => Ok (set_state (push t (TIdent {| id_name := name; id_pos := s |})) LMain)
      end
  | LDollar i => Err (ELex i (Some (ch "$")))
  | LTerminalIdent s e =>
      do raw <- unwrap "push_pending: slice terminal ident" (slice src s e);
      let name := remove_dollars raw in
      match reserved_word name with
      | Some _ => Err (ELex cur_i cur)
      | None => Ok (set_state (push t (TTerminalIdent {| ti_name := name; ti_dpos := s + 1 |})) LMain)
      end
  | LColon i => Ok (set_state (push t (TColon i)) LMain)
  | LPound i => Err (ELex i (Some (ch "#")))
  | LAttr s _ e =>
      (* repaired (F3): an attribute still open at the end of input is a lexical error *)
      Err (ELex cur_i cur)
  end.

Definition handle_main (t : tokenizer) (c : char) (i : N) : res tokenizer :=
  if is_whitespace c then Ok t
  else if c =? ch "/" then Ok (set_state t (LSlash i))
  else if is_ascii_alphabetic c || (c =? ch "_") then Ok (set_state t (LIdent i (i + len_utf8 c)))
  else if c =? ch "$" then Ok (set_state t (LDollar i))
  else if c =? ch ":" then Ok (set_state t (LColon i))
  else if c =? ch "#" then Ok (set_state t (LPound i))
  else match single_char_punctuation c with
       | Some mk => Ok (push t (mk i))
       | None => Err (ELex i (Some c))
       end.

(* "push the pending token, then handle the same character again" — after a
   successful push the state is Main, so the second call is handle_main *)
Definition flush_then_main (src : str) (t : tokenizer) (c : char) (i : N) : res tokenizer :=
  do t' <- push_pending src t (Some c) i;
  handle_main t' c i.

Definition handle_char (src : str) (t : tokenizer) (c : char) (i : N) : res tokenizer :=
  match tz_state t with
  | LMain => handle_main t c i
  | LSlash s =>
      if c =? ch "/" then Ok (set_state t LComment) else Err (ELex s (Some (ch "/")))
  | LComment => if c =? 10 then Ok (set_state t LMain) else Ok t
  | LIdent s e =>
      if is_ascii_alphanumeric c || (c =? ch "_") then Ok (set_state t (LIdent s (e + len_utf8 c)))
      else flush_then_main src t c i
  | LDollar d =>
      if is_ascii_alphabetic c || (c =? ch "_")
      then Ok (set_state t (LTerminalIdent d (d + 1 + len_utf8 c)))
      else Err (ELex d (Some (ch "$")))
  | LTerminalIdent s e =>
      if is_ascii_alphanumeric c || (c =? ch "_") then Ok (set_state t (LTerminalIdent s (e + len_utf8 c)))
      else flush_then_main src t c i
  | LColon s =>
      if c =? ch ":" then Ok (set_state (push t (TDoubleColon s)) LMain)
      else flush_then_main src t c i
  | LPound s =>
      if c =? ch "[" then Ok (set_state t (LAttr s 1 (i + 1)))
      else flush_then_main src t c i
  | LAttr s cnt e =>
      if is_open_bracket c then Ok (set_state t (LAttr s (cnt + 1) (e + len_utf8 c)))
      else if is_close_bracket c then
        if cnt =? 1 then finish_outer_attribute src t s (e + len_utf8 c)
        else Ok (set_state t (LAttr s (cnt - 1) (e + len_utf8 c)))
      else if c =? 10 then Err (ELex i (Some c))
      else Ok (set_state t (LAttr s cnt (e + len_utf8 c)))   (* repaired (F1): was end + 1 *)
  end.

Fixpoint tokenize_loop (src : str) (t : tokenizer) (l : list (N * char)) : res tokenizer :=
  match l with
  | [] => Ok t
  | (i, c) :: r => do t' <- handle_char src t c i; tokenize_loop src t' r
  end.

Definition tokenize (src : str) : res (list token) :=
  do t <- tokenize_loop src {| tz_out := []; tz_state := LMain |} (char_indices src);
  do t' <- push_pending src t None (blen src);
  Ok (rev (tz_out t')).
