(* Lex/NoPanic.v — the tokenizer model never reaches a Panic: every slice
   `&src[a..b]` it takes is on character boundaries inside the source (C07),
   because the positions it carries are the byte lengths of prefixes of the
   text consumed so far. *)
From Coq Require Import List Arith NArith Lia Bool.
From Kiki Require Import Base.Ord Base.Chars Data Ast.ValidateProofs Lex.Model.
Import ListNotations.
Open Scope N_scope.

Lemma len_utf8_pos c : 1 <= len_utf8 c.
Proof. unfold len_utf8. repeat destruct (_ <? _); lia. Qed.

Lemma blen_app a b : blen (a ++ b) = blen a + blen b.
Proof. induction a as [|c a IH]; cbn [app blen]; [reflexivity|]. rewrite IH. lia. Qed.

Lemma drop_to_app pre : forall r p, drop_to (pre ++ r) p (p + blen pre) = Some r.
Proof.
  induction pre as [|c pre IH]; intros r p; cbn [app blen].
  - rewrite N.add_0_r. destruct r; cbn [drop_to]; rewrite N.eqb_refl; reflexivity.
  - cbn [drop_to]. pose proof (len_utf8_pos c).
    replace (p =? p + (len_utf8 c + blen pre)) with false by (symmetry; apply N.eqb_neq; lia).
    replace (p + (len_utf8 c + blen pre) <? p + len_utf8 c) with false by (symmetry; apply N.ltb_ge; lia).
    replace (p + (len_utf8 c + blen pre)) with ((p + len_utf8 c) + blen pre) by lia. apply IH.
Qed.

Lemma take_to_app mid : forall post a, take_to (mid ++ post) a (a + blen mid) = Some mid.
Proof.
  induction mid as [|c mid IH]; intros post a; cbn [app blen].
  - rewrite N.add_0_r. destruct post; cbn [take_to]; rewrite N.eqb_refl; reflexivity.
  - cbn [take_to]. pose proof (len_utf8_pos c).
    replace (a =? a + (len_utf8 c + blen mid)) with false by (symmetry; apply N.eqb_neq; lia).
    replace (a + (len_utf8 c + blen mid) <? a + len_utf8 c) with false by (symmetry; apply N.ltb_ge; lia).
    replace (a + (len_utf8 c + blen mid)) with ((a + len_utf8 c) + blen mid) by lia. rewrite IH. reflexivity.
Qed.

Lemma slice_app pre mid post : slice (pre ++ mid ++ post) (blen pre) (blen pre + blen mid) = Some mid.
Proof.
  unfold slice. rewrite <- (N.add_0_l (blen pre)) at 1. rewrite drop_to_app. apply take_to_app.
Qed.

Lemma slice_app' src pre mid post a b :
  src = pre ++ mid ++ post -> a = blen pre -> b = blen pre + blen mid -> slice src a b = Some mid.
Proof. intros -> -> ->. apply slice_app. Qed.

Lemma char_indices_from_app a : forall b p,
    char_indices_from p (a ++ b) = char_indices_from p a ++ char_indices_from (p + blen a) b.
Proof.
  induction a as [|c a IH]; intros b p; cbn [app char_indices_from blen].
  - rewrite N.add_0_r. reflexivity.
  - rewrite IH, N.add_assoc. reflexivity.
Qed.

(* the positions carried by a state are lengths of prefixes of the consumed text *)
Definition st_inv (consumed : str) (st : lstate) : Prop :=
  match st with
  | LIdent s e | LTerminalIdent s e =>
      exists pre mid, consumed = pre ++ mid /\ blen pre = s /\ e = blen consumed
  | LAttr s _ e => exists pre mid, consumed = pre ++ ch "#" :: mid /\ blen pre = s /\ e = blen consumed
  | LDollar d => exists pre, consumed = pre ++ [ch "$"] /\ blen pre = d
  | LPound s => exists pre, consumed = pre ++ [ch "#"] /\ blen pre = s
  | _ => True
  end.

Definition res_inv (consumed : str) (r : res tokenizer) : Prop :=
  match r with
  | Ok t' => st_inv consumed (tz_state t')
  | Err _ => True
  | Panic _ => False
  | OutOfFuel _ => False
  end.

Lemma handle_main_inv consumed t c :
  tz_state t = LMain -> res_inv (consumed ++ [c]) (handle_main t c (blen consumed)).
Proof.
  intros Hm. unfold handle_main.
  destruct (is_whitespace c); [cbn [res_inv]; rewrite Hm; exact I|].
  destruct (c =? ch "/"); [exact I|].
  destruct (is_ascii_alphabetic c || (c =? ch "_")).
  { cbn [res_inv set_state tz_state st_inv]. exists consumed, [c]. rewrite blen_app. cbn [blen]. split; [reflexivity|]. split; lia. }
  destruct (c =? ch "$") eqn:E.
  { apply N.eqb_eq in E. subst c. cbn [res_inv set_state tz_state st_inv]. exists consumed. auto. }
  destruct (c =? ch ":"); [exact I|].
  destruct (c =? ch "#") eqn:E2.
  { apply N.eqb_eq in E2. subst c. cbn [res_inv set_state tz_state st_inv]. exists consumed. auto. }
  destruct (single_char_punctuation c); [|exact I].
  cbn [res_inv push tz_state]. rewrite Hm. exact I.
Qed.

Lemma set_state_main t : tz_state (set_state t LMain) = LMain.
Proof. reflexivity. Qed.

(* push_pending never panics under the invariant, and leaves state Main *)
Lemma push_pending_inv src consumed rest t cur cur_i :
  src = consumed ++ rest -> st_inv consumed (tz_state t) ->
  match push_pending src t cur cur_i with
  | Ok t' => tz_state t' = LMain
  | Err _ => True
  | _ => False
  end.
Proof.
  intros Hsrc Hinv. unfold push_pending. destruct (tz_state t) as [|i| |s e|i|s e|i|i|s n e]; cbn [st_inv] in Hinv; try exact I; try reflexivity.
  - destruct Hinv as (pre & mid & Hc & Hs & He).
    rewrite (slice_app' src pre mid rest s e); [|subst; rewrite <- app_assoc; reflexivity|auto|subst; rewrite blen_app; reflexivity].
    cbn [unwrap bind]. destruct (reserved_word mid); reflexivity.
  - destruct Hinv as (pre & mid & Hc & Hs & He).
    rewrite (slice_app' src pre mid rest s e); [|subst; rewrite <- app_assoc; reflexivity|auto|subst; rewrite blen_app; reflexivity].
    cbn [unwrap bind]. destruct (reserved_word (remove_dollars mid)); [exact I|reflexivity].
Qed.

Lemma flush_then_main_inv src consumed c rest t :
  src = consumed ++ c :: rest -> st_inv consumed (tz_state t) ->
  res_inv (consumed ++ [c]) (flush_then_main src t c (blen consumed)).
Proof.
  intros Hsrc Hinv. unfold flush_then_main.
  pose proof (push_pending_inv src consumed (c :: rest) t (Some c) (blen consumed) Hsrc Hinv) as H.
  destruct (push_pending src t (Some c) (blen consumed)) as [t'|e|s|s]; cbn [bind]; try contradiction; try exact I.
  apply handle_main_inv. exact H.
Qed.

Lemma finish_outer_attribute_inv src pre mid rest t s e :
  src = pre ++ (ch "#" :: mid) ++ rest -> blen pre = s -> e = blen (pre ++ ch "#" :: mid) ->
  match finish_outer_attribute src t s e with
  | Ok t' => tz_state t' = LMain
  | Err _ => True
  | _ => False
  end.
Proof.
  intros Hsrc Hs He. unfold finish_outer_attribute.
  assert (H1 : slice src (s + 1) e = Some mid).
  { apply (slice_app' src (pre ++ [ch "#"]) mid rest).
    - rewrite Hsrc. rewrite <- !app_assoc. reflexivity.
    - rewrite blen_app. cbn. lia.
    - rewrite He, !blen_app. cbn [blen]. change (len_utf8 (ch "#")) with 1. lia. }
  rewrite H1. cbn [unwrap bind].
  destruct (check_brackets (char_indices_from (s + 1) mid) []) as [[]|err|site|site] eqn:Ec; cbn [bind]; try exact I.
  - assert (H2 : slice src s e = Some (ch "#" :: mid)).
    { apply (slice_app' src pre (ch "#" :: mid) rest); [exact Hsrc|auto|]. rewrite He, blen_app. lia. }
    rewrite H2. reflexivity.
  - (* check_brackets never panics *)
    exfalso. clear -Ec. revert Ec. generalize (@nil char). generalize (char_indices_from (s + 1) mid).
    induction l as [|[i c] l IH]; intros stack Ec; cbn [check_brackets] in Ec; [discriminate|].
    destruct (is_open_bracket c); [eapply IH; eauto|].
    destruct (is_close_bracket c); [|eapply IH; eauto].
    destruct stack as [|top st]; [discriminate|]. destruct (brackets_match top c); [eapply IH; eauto|discriminate].
  - exfalso. clear -Ec. revert Ec. generalize (@nil char). generalize (char_indices_from (s + 1) mid).
    induction l as [|[i c] l IH]; intros stack Ec; cbn [check_brackets] in Ec; [discriminate|].
    destruct (is_open_bracket c); [eapply IH; eauto|].
    destruct (is_close_bracket c); [|eapply IH; eauto].
    destruct stack as [|top st]; [discriminate|]. destruct (brackets_match top c); [eapply IH; eauto|discriminate].
Qed.

Ltac blen_lia :=
  repeat (rewrite blen_app || cbn [blen]);
  try change (len_utf8 (ch "#")) with 1; try change (len_utf8 (ch "$")) with 1; try change (len_utf8 (ch "[")) with 1;
  lia.

Lemma handle_char_inv src consumed c rest t :
  src = consumed ++ c :: rest -> st_inv consumed (tz_state t) ->
  res_inv (consumed ++ [c]) (handle_char src t c (blen consumed)).
Proof.
  intros Hsrc Hinv. unfold handle_char.
  Ltac solve_ok Est := cbn [res_inv set_state push tz_state]; rewrite ?Est; cbn [st_inv]; exact I.
  destruct (tz_state t) as [|i| |s e|i|s e|i|i|s n e] eqn:Est; cbn [st_inv] in Hinv.
  - apply handle_main_inv. exact Est.
  - destruct (c =? ch "/"); solve_ok Est.
  - destruct (c =? 10); solve_ok Est.
  - destruct (is_ascii_alphanumeric c || (c =? ch "_")).
    + destruct Hinv as (pre & mid & Hc & Hs & He). cbn [res_inv set_state tz_state st_inv].
      exists pre, (mid ++ [c]). subst. split; [rewrite app_assoc; reflexivity|]. split; [reflexivity|blen_lia].
    + apply (flush_then_main_inv src consumed c rest t); [exact Hsrc|rewrite Est; exact Hinv].
  - destruct (is_ascii_alphabetic c || (c =? ch "_")); [|solve_ok Est].
    destruct Hinv as (pre & Hc & Hs). cbn [res_inv set_state tz_state st_inv].
    exists pre, ([ch "$"] ++ [c]). subst. split; [rewrite <- app_assoc; reflexivity|]. split; [reflexivity|blen_lia].
  - destruct (is_ascii_alphanumeric c || (c =? ch "_")).
    + destruct Hinv as (pre & mid & Hc & Hs & He). cbn [res_inv set_state tz_state st_inv].
      exists pre, (mid ++ [c]). subst. split; [rewrite app_assoc; reflexivity|]. split; [reflexivity|blen_lia].
    + apply (flush_then_main_inv src consumed c rest t); [exact Hsrc|rewrite Est; exact Hinv].
  - destruct (c =? ch ":"); [solve_ok Est|]. apply (flush_then_main_inv src consumed c rest t); [exact Hsrc|rewrite Est; exact I].
  - destruct (c =? ch "[") eqn:E.
    + apply N.eqb_eq in E. subst c. destruct Hinv as (pre & Hc & Hs). cbn [res_inv set_state tz_state st_inv].
      exists pre, [ch "["]. subst. split; [rewrite <- app_assoc; reflexivity|]. split; [reflexivity|blen_lia].
    + apply (flush_then_main_inv src consumed c rest t); [exact Hsrc|rewrite Est; exact Hinv].
  - destruct Hinv as (pre & mid & Hc & Hs & He).
    assert (Hnext : forall k, st_inv (consumed ++ [c]) (LAttr s k (e + len_utf8 c))).
    { intros k. cbn [st_inv]. exists pre, (mid ++ [c]). subst.
      split; [rewrite <- app_assoc; reflexivity|]. split; [reflexivity|blen_lia]. }
    destruct (is_open_bracket c); [apply Hnext|].
    destruct (is_close_bracket c).
    + destruct (n =? 1); [|apply Hnext].
      pose proof (finish_outer_attribute_inv src pre (mid ++ [c]) rest t s (e + len_utf8 c)) as Hf.
      assert (Hpre : src = pre ++ (ch "#" :: mid ++ [c]) ++ rest).
      { rewrite Hsrc, Hc. rewrite <- !app_assoc. cbn [app]. rewrite <- app_assoc. reflexivity. }
      specialize (Hf Hpre Hs).
      assert (He' : e + len_utf8 c = blen (pre ++ ch "#" :: mid ++ [c])) by (subst; blen_lia).
      specialize (Hf He').
      destruct (finish_outer_attribute src t s (e + len_utf8 c)) as [t'|err|site|site]; try contradiction; try exact I.
      cbn [res_inv]. rewrite Hf. exact I.
    + destruct (c =? 10); [solve_ok Est|apply Hnext].
Qed.

Lemma tokenize_loop_inv src : forall rest consumed t,
    src = consumed ++ rest -> st_inv consumed (tz_state t) ->
    match tokenize_loop src t (char_indices_from (blen consumed) rest) with
    | Ok t' => st_inv src (tz_state t')
    | Err _ => True
    | _ => False
    end.
Proof.
  induction rest as [|c rest IH]; intros consumed t Hsrc Hinv; cbn [char_indices_from tokenize_loop].
  - rewrite app_nil_r in Hsrc. subst. exact Hinv.
  - pose proof (handle_char_inv src consumed c rest t Hsrc Hinv) as H.
    destruct (handle_char src t c (blen consumed)) as [t'|e|s|s]; cbn [bind res_inv] in *; try contradiction; try exact I.
    specialize (IH (consumed ++ [c]) t'). rewrite blen_app in IH. cbn [blen] in IH. rewrite N.add_0_r in IH.
    apply IH; [rewrite <- app_assoc; exact Hsrc|exact H].
Qed.

Theorem tokenize_never_panics src : forall site, tokenize src <> Panic site /\ tokenize src <> OutOfFuel site.
Proof.
  intros site. unfold tokenize, char_indices.
  pose proof (tokenize_loop_inv src src [] {| tz_out := []; tz_state := LMain |} eq_refl I) as H.
  cbn [blen] in H.
  destruct (tokenize_loop src {| tz_out := []; tz_state := LMain |} (char_indices_from 0 src)) as [t|e|s|s];
    cbn [bind]; try contradiction; try (split; discriminate).
  pose proof (push_pending_inv src src [] t None (blen src) (eq_sym (app_nil_r src)) H) as Hp.
  destruct (push_pending src t None (blen src)) as [t'|e|s|s]; cbn [bind]; try contradiction; split; discriminate.
Qed.
