(* Front/KikiGrammar.v — the published Kiki grammar (grammar of record), written
   by hand from the documentation of the file format.  It is compared at check
   time with the rules the translator extracts from kiki/src/parser.kiki and
   with the rule shapes extracted from kiki/src/parser.rs (Gen/KikiTables.v). *)
From Kiki Require Import Base.Ord Base.Chars Data LR.Driver.
Open Scope nat_scope.

(* terminals, in the order of `terminal Token { ... }` *)
Definition tUnderscore := PT 0.   Definition tIdent := PT 1.
Definition tTerminalIdent := PT 2. Definition tOuterAttribute := PT 3.
Definition tStartKw := PT 4.      Definition tStructKw := PT 5.
Definition tEnumKw := PT 6.       Definition tTerminalKw := PT 7.
Definition tColon := PT 8.        Definition tDoubleColon := PT 9.
Definition tComma := PT 10.       Definition tLParen := PT 11.
Definition tRParen := PT 12.      Definition tLCurly := PT 13.
Definition tRCurly := PT 14.      Definition tLAngle := PT 15.
Definition tRAngle := PT 16.

(* nonterminals, in declaration order *)
Definition nFile := 0.            Definition nOptItems := 1.
Definition nFileItem := 2.        Definition nStruct := 3.
Definition nEnum := 4.            Definition nTerminalEnum := 5.
Definition nOptOuterAttributes := 6. Definition nFieldset := 7.
Definition nNamedFieldset := 8.   Definition nNamedFields := 9.
Definition nNamedField := 10.     Definition nTupleFieldset := 11.
Definition nTupleFields := 12.    Definition nTupleField := 13.
Definition nOptEnumVariants := 14. Definition nEnumVariant := 15.
Definition nOptTerminalEnumVariants := 16. Definition nTerminalEnumVariant := 17.
Definition nType := 18.           Definition nPath := 19.
Definition nComplexType := 20.    Definition nCommaSeparatedTypes := 21.
Definition nIdentOrUnderscore := 22. Definition nIdentOrTerminalIdent := 23.

Definition mk (lhs : nat) (rhs : list (psym * bool)) : prule :=
  {| pr_lhs := lhs; pr_rhs := map fst rhs; pr_used := map snd rhs |}.
Definition u (s : psym) := (s, true).     (* a used field *)
Definition s_ (s : psym) := (s, false).   (* a `_:` field *)

Definition kiki_grammar : list prule := [
  (*  0 *) mk nFile [u (PN nOptItems)];
  (*  1 *) mk nOptItems [];
  (*  2 *) mk nOptItems [u (PN nOptItems); u (PN nFileItem)];
  (*  3 *) mk nFileItem [s_ tStartKw; u tIdent];
  (*  4 *) mk nFileItem [u (PN nStruct)];
  (*  5 *) mk nFileItem [u (PN nEnum)];
  (*  6 *) mk nFileItem [u (PN nTerminalEnum)];
  (*  7 *) mk nStruct [u (PN nOptOuterAttributes); s_ tStructKw; u tIdent; u (PN nFieldset)];
  (*  8 *) mk nEnum [u (PN nOptOuterAttributes); s_ tEnumKw; u tIdent; s_ tLCurly;
                     u (PN nOptEnumVariants); s_ tRCurly];
  (*  9 *) mk nTerminalEnum [u (PN nOptOuterAttributes); s_ tTerminalKw; u tIdent; s_ tLCurly;
                             u (PN nOptTerminalEnumVariants); s_ tRCurly];
  (* 10 *) mk nOptOuterAttributes [];
  (* 11 *) mk nOptOuterAttributes [u (PN nOptOuterAttributes); u tOuterAttribute];
  (* 12 *) mk nFieldset [];
  (* 13 *) mk nFieldset [u (PN nNamedFieldset)];
  (* 14 *) mk nFieldset [u (PN nTupleFieldset)];
  (* 15 *) mk nNamedFieldset [s_ tLCurly; u (PN nNamedFields); s_ tRCurly];
  (* 16 *) mk nNamedFields [u (PN nNamedField)];
  (* 17 *) mk nNamedFields [u (PN nNamedFields); u (PN nNamedField)];
  (* 18 *) mk nNamedField [u (PN nIdentOrUnderscore); s_ tColon; u (PN nIdentOrTerminalIdent)];
  (* 19 *) mk nTupleFieldset [s_ tLParen; u (PN nTupleFields); s_ tRParen];
  (* 20 *) mk nTupleFields [u (PN nTupleField)];
  (* 21 *) mk nTupleFields [u (PN nTupleFields); u (PN nTupleField)];
  (* 22 *) mk nTupleField [u (PN nIdentOrTerminalIdent)];
  (* 23 *) mk nTupleField [s_ tUnderscore; s_ tColon; u (PN nIdentOrTerminalIdent)];
  (* 24 *) mk nOptEnumVariants [];
  (* 25 *) mk nOptEnumVariants [u (PN nOptEnumVariants); u (PN nEnumVariant)];
  (* 26 *) mk nEnumVariant [u tIdent; u (PN nFieldset)];
  (* 27 *) mk nOptTerminalEnumVariants [];
  (* 28 *) mk nOptTerminalEnumVariants [u (PN nOptTerminalEnumVariants); u (PN nTerminalEnumVariant)];
  (* 29 *) mk nTerminalEnumVariant [u tTerminalIdent; s_ tColon; u (PN nType)];
  (* 30 *) mk nType [s_ tLParen; s_ tRParen];
  (* 31 *) mk nType [u (PN nPath)];
  (* 32 *) mk nType [u (PN nComplexType)];
  (* 33 *) mk nPath [u tIdent];
  (* 34 *) mk nPath [u (PN nPath); s_ tDoubleColon; u tIdent];
  (* 35 *) mk nComplexType [u (PN nPath); s_ tLAngle; u (PN nCommaSeparatedTypes); s_ tRAngle];
  (* 36 *) mk nCommaSeparatedTypes [u (PN nType)];
  (* 37 *) mk nCommaSeparatedTypes [u (PN nCommaSeparatedTypes); s_ tComma; u (PN nType)];
  (* 38 *) mk nIdentOrUnderscore [u tIdent];
  (* 39 *) mk nIdentOrUnderscore [u tUnderscore];
  (* 40 *) mk nIdentOrTerminalIdent [u tIdent];
  (* 41 *) mk nIdentOrTerminalIdent [u tTerminalIdent]
].
