(* Front/FrontProofs.v — what the front end (tokenize, parse, cst -> ast, validate)
   guarantees about the file it hands to the generator: VWF (Ast/VWF.v).  The only
   step that needs the earlier stages is that declared terminal names carry no `$`:
   they are leaves of the parse tree, the parse tree's yield is the token sequence
   (soundness of the validated front-end tables), and the tokenizer strips dollars. *)
From Coq Require Import List Arith Lia Bool.
From Kiki Require Import Base.Ord Base.Chars Data DataProofs Np Lex.Model Lex.NoPanic Lex.Dollar Lex.Spans LR.Driver LR.Grammar LR.Inv LR.Sound LR.ErrPos LR.Validate LR.ValidateProofs
  Front.KikiGrammar Front.Cst2Ast Front.Parse Front.KikiValid Front.CstTotal Ast.Validate Ast.WF Ast.ValidateProofs Ast.VWF Ast.NoPanic Pipeline.
From Kiki Require Gen.KikiAnn.
Import ListNotations.
Open Scope nat_scope.

Ltac peel r H := do 45 (try (destruct r as [|r]; [try (cbn in H; discriminate H)|])); try (cbn in H; discriminate H).

Ltac kill H := try (cbn in H; discriminate H).

Lemma obind_some {A B} (o : option A) (f : A -> option B) b : obind o f = Some b -> exists a, o = Some a /\ f a = Some b.
Proof. destruct o as [a|]; cbn; [eauto|discriminate]. Qed.

Lemma a_tident_leaf x i : a_tident x = Some i -> x = Leaf (TTerminalIdent i).
Proof. destruct x as [[]|]; cbn; try discriminate. intros H; injection H as <-. reflexivity. Qed.

Lemma a_tenum_variant_yield t tv : a_tenum_variant t = Some tv -> In (TTerminalIdent (tv_name tv)) (yield t).
Proof.
  intros H. destruct t as [p|r ch]; [discriminate|]. peel r H.
  destruct ch as [|n [|x [|ty [|? ?]]]]; kill H. cbn in H.
  apply obind_some in H as (n' & Hn & H). apply obind_some in H as (ty' & _ & H). injection H as <-.
  apply a_tident_leaf in Hn. subst n. cbn. left. reflexivity.
Qed.

Lemma a_tenum_variants_yield vs : forall t, a_tenum_variants t = Some vs ->
  forall tv, In tv vs -> In (TTerminalIdent (tv_name tv)) (yield t).
Proof.
  induction vs as [|x xs IH] using rev_ind; intros t H tv Hin; [destruct Hin|].
  destruct t as [p|r ch]; [discriminate|]. peel r H.
  - destruct ch; [|discriminate]. cbn in H. injection H as H. destruct xs; discriminate.
  - destruct ch as [|l [|v0 [|? ?]]]; kill H. cbn in H.
    apply obind_some in H as (ls & Hl & H). apply obind_some in H as (v' & Hv & H). injection H as H.
    apply app_inj_tail in H as (-> & ->). cbn [yield flat_map]. fold (@yield token). rewrite app_nil_r.
    apply in_or_app. apply in_app_or in Hin as [Hin|[<-|[]]].
    + left. eapply IH; eauto.
    + right. apply a_tenum_variant_yield, Hv.
Qed.

Lemma a_item_yield t it : a_item t = Some it ->
  match it with
  | ITerminal d => forall tv, In tv (td_variants d) -> In (TTerminalIdent (tv_name tv)) (yield t)
  | _ => True
  end.
Proof.
  intros H. destruct it as [i|s|e|d]; try exact I. destruct t as [p|r ch]; [discriminate|]. peel r H.
  - destruct ch as [|? [|? [|? ?]]]; kill H. cbn in H.
    match type of H with context [a_ident ?x] => destruct (a_ident x); discriminate end.
  - destruct ch as [|[p|r ch] tl]; kill H. peel r H.
    destruct ch as [|? [|? [|? [|? [|? ?]]]]]; kill H; destruct tl; kill H. cbn in H.
    repeat (apply obind_some in H as (? & _ & H)). discriminate.
  - destruct ch as [|[p|r ch] tl]; kill H. peel r H.
    destruct ch as [|? [|? [|? [|? [|? [|? [|? ?]]]]]]]; kill H; destruct tl; kill H. cbn in H.
    repeat (apply obind_some in H as (? & _ & H)). discriminate.
  - destruct ch as [|[p|r ch] tl]; kill H. peel r H.
    destruct ch as [|attrs [|k [|n [|lc [|vs [|rc [|? ?]]]]]]]; kill H; destruct tl; kill H. cbn in H.
    apply obind_some in H as (a & _ & H). apply obind_some in H as (n' & _ & H). apply obind_some in H as (vs' & Hvs & H).
    injection H as <-. cbn [td_variants]. intros tv Htv.
    pose proof (a_tenum_variants_yield vs' vs Hvs tv Htv) as Hy.
    cbn [yield flat_map]. fold (@yield token). rewrite !in_app_iff. tauto.
Qed.

Lemma terminal_variant_idents_app f g : terminal_variant_idents (f ++ g) = terminal_variant_idents f ++ terminal_variant_idents g.
Proof. unfold terminal_variant_idents, terminal_decls. rewrite !flat_map_app. reflexivity. Qed.

Lemma a_items_yield f : forall t, a_items t = Some f ->
  forall ti, In ti (terminal_variant_idents f) -> In (TTerminalIdent ti) (yield t).
Proof.
  induction f as [|x xs IH] using rev_ind; intros t H ti Hin; [destruct Hin|].
  destruct t as [p|r ch]; [discriminate|]. peel r H.
  - destruct ch; [|discriminate]. cbn in H. injection H as H. destruct xs; discriminate.
  - destruct ch as [|l [|i0 [|? ?]]]; kill H. cbn in H.
    apply obind_some in H as (ls & Hl & H). apply obind_some in H as (i' & Hi & H). injection H as H.
    apply app_inj_tail in H as (-> & ->). cbn [yield flat_map]. fold (@yield token). rewrite app_nil_r.
    rewrite terminal_variant_idents_app in Hin. apply in_or_app. apply in_app_or in Hin as [Hin|Hin].
    + left. eapply IH; eauto.
    + right. pose proof (a_item_yield _ _ Hi) as Hy. unfold terminal_variant_idents, terminal_decls in Hin. cbn [flat_map] in Hin.
      rewrite app_nil_r in Hin. destruct x as [?|?|?|d]; cbn in Hin; try contradiction. rewrite app_nil_r in Hin.
      apply in_map_iff in Hin as (tv & <- & Htv). apply Hy, Htv.
Qed.

Lemma a_file_yield t f : a_file t = Some f -> forall ti, In ti (terminal_variant_idents f) -> In (TTerminalIdent ti) (yield t).
Proof.
  intros H. destruct t as [p|r ch]; [discriminate|]. peel r H.
  destruct ch as [|items [|? ?]]; kill H. cbn in H. intros ti Hin.
  cbn [yield flat_map]. fold (@yield token). rewrite app_nil_r. eapply a_items_yield; eauto.
Qed.

(* the file the front end produces declares dollarless terminal names *)
Theorem front_parse_dollar_free src tokens fuel ast :
  tokenize src = Ok tokens -> front_parse fuel src tokens = Ok ast -> dollar_free ast.
Proof.
  intros Htok H. unfold front_parse in H.
  destruct (parse token_kind kiki_ptable fuel tokens) as [t|tok|site|] eqn:Ep; try discriminate.
  - destruct (a_file t) as [f|] eqn:Ef; [|discriminate]. cbn in H. injection H as <-.
    destruct (validated_sound token_kind kiki_ptable Gen.KikiAnn.kiki_ann Gen.KikiAnn.kiki_ft kiki_tables_valid
                fuel tokens t (all_tokens_bounded tokens) Ep) as (_ & Hy).
    intros ti Hin. pose proof (a_file_yield t f Ef ti Hin) as Hl. rewrite Hy in Hl.
    exact (tokenize_dollarless src tokens Htok ti Hl).
  - destruct (unexpected_to_err tok src); discriminate.
Qed.

Theorem front_end_VWF src v : front_end src = Ok v -> VWF v.
Proof.
  unfold front_end. intros H. apply bind_ok in H as (tokens & Htok & H). apply bind_ok in H as (ast & Hast & H).
  apply (validate_ast_VWF ast v H). eapply front_parse_dollar_free; eauto.
Qed.

(* ---------- C07: the front end never panics ---------- *)

Theorem np_front_parse fuel src tokens : tokenize src = Ok tokens -> np (front_parse fuel src tokens).
Proof.
  intros Htok. unfold front_parse.
  pose proof (validate_Inv2 kiki_ptable Gen.KikiAnn.kiki_ann Gen.KikiAnn.kiki_ft kiki_tables_valid) as H2.
  destruct (parse token_kind kiki_ptable fuel tokens) as [t|tok|site|] eqn:Ep.
  - destruct (sound token_kind kiki_ptable _ H2 fuel tokens t (all_tokens_bounded tokens) Ep) as (Hwf & _).
    apply np_unwrap. apply a_file_total, Hwf.
  - destruct (reject_is_input_token token_kind kiki_ptable _ H2 fuel tokens tok (all_tokens_bounded tokens) Ep)
      as (consumed & rest & Hw & Htk).
    apply np_bind; [|intros; apply np_err]. unfold unexpected_to_err. destruct tok as [k|]; [|apply np_ok].
    assert (Hin : In k tokens).
    { rewrite Hw. apply in_or_app. right. destruct rest as [|k' rest']; [discriminate|]. cbn in Htk. injection Htk as ->. left. reflexivity. }
    destruct (tok_span_slice src k (tokenize_spans src tokens Htok k Hin)) as (s & mid & Hs & Hsl).
    rewrite Hs. cbn [bind]. rewrite Hsl. cbn. apply np_ok.
  - exfalso. apply (safe token_kind kiki_ptable _ H2 fuel tokens site (all_tokens_bounded tokens) Ep).
  - apply np_oof.
Qed.

Theorem np_front_end src : np (front_end src).
Proof.
  unfold front_end. apply np_bind.
  - intros site. apply (tokenize_never_panics src site).
  - intros tokens Htok. apply np_bind; [apply np_front_parse, Htok|]. intros ast _. apply np_validate_ast.
Qed.

(* ---------- C09: a syntax error is exact ---------- *)

(* When the parser rejects, the error names the first token after which no valid file can
   continue, with the byte span and the text of that token in the source; at the end of the
   input it is the empty span at the end of the source. *)
Theorem front_parse_error_exact src tokens fuel e :
  tokenize src = Ok tokens -> front_parse fuel src tokens = Err e ->
  exists consumed rest,
    tokens = consumed ++ rest /\
    (forall x r z, rest = x :: r -> ~ sentence token_kind kiki_ptable (consumed ++ x :: z)) /\
    match rest with
    | [] => e = EParse (blen src) [] (blen src)
    | tk :: _ => exists pre mid post, src = pre ++ mid ++ post /\ token_start tk = Ok (blen pre) /\
                                      token_content_len tk = blen mid /\ e = EParse (blen pre) mid (blen pre + blen mid)
    end.
Proof.
  intros Htok H. unfold front_parse in H.
  destruct (parse token_kind kiki_ptable fuel tokens) as [t|tok|site|] eqn:Ep; try discriminate.
  - destruct (a_file t); discriminate.
  - pose proof (validate_parts _ _ _ kiki_tables_valid) as (Hfc & _).
    destruct (ErrPos.reject_position token_kind kiki_ptable _ (fseq Gen.KikiAnn.kiki_ft)
                (FirstOK_of_closed token_kind kiki_ptable _ Hfc) (validate_Inv _ _ _ kiki_tables_valid) fuel tokens tok Ep)
      as (consumed & rest & Hw & Htk & _ & Hlate).
    exists consumed, rest. split; [exact Hw|]. split; [exact Hlate|].
    destruct rest as [|tk rest']; cbn in Htk; subst tok.
    + cbn in H. injection H as <-. reflexivity.
    + assert (Hin : In tk tokens) by (rewrite Hw; apply in_or_app; right; left; reflexivity).
      destruct (tokenize_spans src tokens Htok tk Hin) as (pre & mid & post & Hsrc & Hs & Hl).
      exists pre, mid, post. split; [exact Hsrc|]. split; [exact Hs|]. split; [exact Hl|].
      unfold unexpected_to_err in H. rewrite Hs in H. cbn [bind] in H. rewrite Hl in H.
      rewrite (slice_app' src pre mid post _ _ Hsrc eq_refl eq_refl) in H. cbn in H. injection H as <-. reflexivity.
Qed.
