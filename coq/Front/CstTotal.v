(* Front/CstTotal.v — the reduce functions + cst_to_ast of the front end are total on
   derivation trees of the Kiki grammar: `a_file t` is defined for every tree t of the start
   symbol (so the `.ok().unwrap()` of the reduce functions cannot fail: C07). *)
From Coq Require Import List Arith Lia Bool.
From Kiki Require Import Base.Ord Base.Chars Data LR.Driver LR.Grammar Front.KikiGrammar Front.Cst2Ast Front.Parse.
Import ListNotations.
Open Scope nat_scope.

Definition ok {A} (o : option A) : Prop := o <> None.

Definition conv_ok (x : psym) (t : ttree) : Prop :=
  match x with
  | PT 0 => exists p, t = Leaf (TUnderscore p)
  | PT 1 => ok (a_ident t) | PT 2 => ok (a_tident t) | PT 3 => ok (a_attr t)
  | PT _ => True
  | PN 0 => ok (a_file t) | PN 1 => ok (a_items t) | PN 2 => ok (a_item t)
  | PN 3 => ok (a_item (Node 4 [t])) | PN 4 => ok (a_item (Node 5 [t])) | PN 5 => ok (a_item (Node 6 [t]))
  | PN 6 => ok (a_attrs t) | PN 7 => ok (a_fieldset t)
  | PN 8 => ok (a_fieldset (Node 13 [t])) | PN 9 => ok (a_named_fields t) | PN 10 => ok (a_named_field t)
  | PN 11 => ok (a_fieldset (Node 14 [t])) | PN 12 => ok (a_tuple_fields t) | PN 13 => ok (a_tuple_field t)
  | PN 14 => ok (a_enum_variants t) | PN 15 => ok (a_enum_variant t)
  | PN 16 => ok (a_tenum_variants t) | PN 17 => ok (a_tenum_variant t)
  | PN 18 => ok (a_type t) | PN 19 => ok (a_path t)
  | PN 20 => ok (a_type (Node 32 [t]))
  | PN 21 => forall c x y, ok (a_path c) -> ok (a_type (Node 32 [Node 35 [c; x; t; y]]))
  | PN 22 => ok (a_iou t) | PN 23 => ok (a_iot t)
  | PN _ => True
  end.

Ltac inv_f2 :=
  repeat match goal with
         | H : Forall2 _ (_ :: _) _ |- _ => inversion H; subst; clear H
         | H : Forall2 _ [] _ |- _ => inversion H; subst; clear H
         end.

Ltac use_oks :=
  repeat match goal with
         | H : ok ?e |- context [?e] => let E := fresh "E" in destruct e eqn:E; [clear H|exfalso; apply H; reflexivity]
         | H : exists p, ?t = Leaf (TUnderscore p) |- _ => destruct H as (? & ->)
         end.

Lemma ok_some {A} (a : A) : ok (Some a).
Proof. discriminate. Qed.

Lemma leaf_ok p : conv_ok (PT (token_kind p)) (Leaf p).
Proof. destruct p; cbn; try exact I; try apply ok_some. eauto. Qed.

Lemma node_ok r ru ch : nth_error kiki_grammar r = Some ru -> Forall2 conv_ok (pr_rhs ru) ch -> conv_ok (PN (pr_lhs ru)) (Node r ch).
Proof.
  intros Hr Hch.
  do 42 (try (destruct r as [|r]; [cbn in Hr; injection Hr as <-; cbn [pr_rhs pr_lhs mk map fst u s_] in Hch |- *; cbv beta iota delta [nFile nOptItems nFileItem nStruct nEnum nTerminalEnum nOptOuterAttributes nFieldset nNamedFieldset nNamedFields nNamedField nTupleFieldset nTupleFields nTupleField nOptEnumVariants nEnumVariant nOptTerminalEnumVariants nTerminalEnumVariant nType nPath nComplexType nCommaSeparatedTypes nIdentOrUnderscore nIdentOrTerminalIdent tUnderscore tIdent tTerminalIdent tOuterAttribute tStartKw tStructKw tEnumKw tTerminalKw tColon tDoubleColon tComma tLParen tRParen tLCurly tRCurly tLAngle tRAngle] in Hch; inv_f2|])).
  all: try (exfalso; cbn in Hr; destruct r; discriminate).
  all: cbv beta iota delta [conv_ok nFile nOptItems nFileItem nStruct nEnum nTerminalEnum nOptOuterAttributes nFieldset nNamedFieldset nNamedFields nNamedField nTupleFieldset nTupleFields nTupleField nOptEnumVariants nEnumVariant nOptTerminalEnumVariants nTerminalEnumVariant nType nPath nComplexType nCommaSeparatedTypes nIdentOrUnderscore nIdentOrTerminalIdent tUnderscore tIdent tTerminalIdent tOuterAttribute tStartKw tStructKw tEnumKw tTerminalKw tColon tDoubleColon tComma tLParen tRParen tLCurly tRCurly tLAngle tRAngle] in *.
  all: try assumption.
  all: try (cbn; use_oks; cbn; try apply ok_some; fail).
  all: try (match goal with H : forall c x y, _ |- _ => apply H; assumption end).
  all: intros cc xx yy Hc0.
  - (* 36 *) cbn. use_oks. cbn. apply ok_some.
  - (* 37 *)
    match goal with H : forall c x y, _ |- _ => specialize (H cc xx yy Hc0); cbn in H end. cbn.
    destruct (a_path cc); [|exfalso; apply Hc0; reflexivity]. cbn in *.
    match goal with H : ok (obind ?e _) |- _ => destruct e; [|exfalso; apply H; reflexivity] end. cbn.
    use_oks. cbn. apply ok_some.
Qed.

Theorem cst_total : forall x t, wf token_kind kiki_ptable x t -> conv_ok x t.
Proof.
  apply (wf_mind token_kind kiki_ptable (fun x t => conv_ok x t) (fun xs ts => Forall2 conv_ok xs ts)).
  - apply leaf_ok.
  - intros r ru ch Hr _ IH. apply node_ok; assumption.
  - constructor.
  - intros x xs t ts _ Hx _ Hxs. constructor; assumption.
Qed.

Corollary a_file_total t : wf token_kind kiki_ptable (PN (pt_start_nt kiki_ptable)) t -> a_file t <> None.
Proof. intros H. apply (cst_total _ _ H). Qed.
