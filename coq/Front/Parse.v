(* Front/Parse.v — the front-end parser: the generic driver over the tables read
   from kiki/src/parser.rs (Gen/KikiTables.v), with the rules of the grammar of
   record.  No proofs. *)
From Kiki Require Import Base.Ord Base.Chars Data LR.Driver Front.KikiGrammar Front.Cst2Ast Ast.Validate.
From Kiki Require Gen.KikiTables.
Open Scope nat_scope.

Definition kiki_ptable : ptable :=
  {| pt_start := Gen.KikiTables.rs_start_state;
     pt_start_nt := Gen.KikiTables.rs_start_nt;
     pt_nterm := length Gen.KikiTables.rs_terminals;
     pt_action := Gen.KikiTables.rs_action;
     pt_goto := Gen.KikiTables.rs_goto;
     pt_rules := kiki_grammar |}.

(* parse(tokens).map_err(unexpected_token_or_eof_to_kiki_err), then cst -> ast *)
Definition front_parse (fuel : nat) (src : str) (tokens : list token) : res ast_file :=
  match parse token_kind kiki_ptable fuel tokens with
  | OAccept t => unwrap "front end: reduce function .ok().unwrap()" (a_file t)
  | OReject tok => do e <- unexpected_to_err tok src; Err e
  | OPanic site => Panic site
  | OOutOfFuel => OutOfFuel "front-end parse loop"
  end.
