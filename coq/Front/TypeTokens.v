(* Front/TypeTokens.v — C13, the front-end link: the type expression the front end builds for a
   terminal's payload stands for exactly the tokens the user wrote.  For every derivation tree t
   of Type (Path, ComplexType, CommaSeparatedTypes) of the Kiki grammar, the tokens of t — its
   yield, read as type tokens — are ty_tokens of the type a_type builds from t (identifiers,
   `::`, `<`, `,`, `>`, `()` in order: cst_to_ast flattens the left-recursive lists in order). *)
From Coq Require Import List Arith Lia Bool.
From Kiki Require Import Base.Ord Base.Chars Data LR.Driver LR.Grammar Front.KikiGrammar Front.Cst2Ast Front.Parse
  Front.CstTotal Ast.Validate Ast.TypeText.
Import ListNotations.
Open Scope nat_scope.

Definition tytok_of (t : token) : tytok :=
  match t with
  | TIdent i => TI (id_name i)
  | TDoubleColon _ => TCC
  | TLAngle _ => TLt
  | TRAngle _ => TGt
  | Data.TComma _ => TypeText.TComma
  | TLParen _ => TLP
  | TRParen _ => TRP
  | _ => TypeText.TComma   (* never met inside a type *)
  end.

Lemma path_tokens_snoc l n : l <> [] -> path_tokens (l ++ [n]) = path_tokens l ++ [TCC; TI n].
Proof.
  induction l as [|a l IH]; intros H; [contradiction|]. destruct l as [|b l]; [reflexivity|].
  change ((a :: b :: l) ++ [n]) with (a :: (b :: l) ++ [n]).
  change (path_tokens (a :: (b :: l) ++ [n])) with (TI a :: TCC :: path_tokens ((b :: l) ++ [n])).
  rewrite IH by discriminate. reflexivity.
Qed.

Lemma args_tokens_snoc l x : l <> [] -> args_tokens (l ++ [x]) = args_tokens l ++ TypeText.TComma :: ty_tokens x.
Proof.
  induction l as [|a l IH]; intros H; [contradiction|]. destruct l as [|b l]; [reflexivity|].
  change ((a :: b :: l) ++ [x]) with (a :: (b :: l) ++ [x]).
  change (args_tokens (a :: (b :: l) ++ [x])) with (ty_tokens a ++ TypeText.TComma :: args_tokens ((b :: l) ++ [x])).
  rewrite IH by discriminate. cbn [args_tokens]. rewrite <- app_assoc. reflexivity.
Qed.

Definition conv_y (x : psym) (t : ttree) : Prop :=
  match x with
  | PT 1 => forall i, a_ident t = Some i -> yield t = [TIdent i]
  | PT 9 => exists p, t = Leaf (TDoubleColon p)
  | PT 10 => exists p, t = Leaf (Data.TComma p)
  | PT 11 => exists p, t = Leaf (TLParen p)
  | PT 12 => exists p, t = Leaf (TRParen p)
  | PT 15 => exists p, t = Leaf (TLAngle p)
  | PT 16 => exists p, t = Leaf (TRAngle p)
  | PT _ => True
  | PN 18 => forall ty, a_type t = Some ty -> map tytok_of (yield t) = ty_tokens ty
  | PN 19 => forall p, a_path t = Some p -> p <> [] /\ map tytok_of (yield t) = path_tokens (map id_name p)
  | PN 20 => forall ty, a_type (Node 32 [t]) = Some ty -> map tytok_of (yield t) = ty_tokens ty
  | PN 21 => forall c x y ty, a_type (Node 32 [Node 35 [c; x; t; y]]) = Some ty ->
                              exists cp args, a_path c = Some cp /\ ty = TyComplex cp args /\ args <> [] /\
                                              map tytok_of (yield t) = args_tokens args
  | PN _ => True
  end.

Lemma leaf_y p : conv_y (PT (token_kind p)) (Leaf p).
Proof. destruct p; cbn; try exact I; eauto. intros i0 H. injection H as <-. reflexivity. Qed.

Lemma yield_node r (ch : list ttree) : yield (Node r ch) = flat_map yield ch.
Proof. reflexivity. Qed.

Ltac unfold_syms :=
  cbv beta iota delta [nFile nOptItems nFileItem nStruct nEnum nTerminalEnum nOptOuterAttributes nFieldset nNamedFieldset nNamedFields nNamedField nTupleFieldset nTupleFields nTupleField nOptEnumVariants nEnumVariant nOptTerminalEnumVariants nTerminalEnumVariant nType nPath nComplexType nCommaSeparatedTypes nIdentOrUnderscore nIdentOrTerminalIdent tUnderscore tIdent tTerminalIdent tOuterAttribute tStartKw tStructKw tEnumKw tTerminalKw tColon tDoubleColon tComma tLParen tRParen tLCurly tRCurly tLAngle tRAngle] in *.

Lemma node_y r ru ch : nth_error kiki_grammar r = Some ru -> Forall2 conv_y (pr_rhs ru) ch -> conv_y (PN (pr_lhs ru)) (Node r ch).
Proof.
  intros Hr Hch.
  do 42 (try (destruct r as [|r]; [cbn in Hr; injection Hr as <-; cbn [pr_rhs pr_lhs mk map fst u s_] in Hch |- *; unfold_syms; inv_f2|])).
  all: try (exfalso; cbn in Hr; destruct r; discriminate).
  all: unfold_syms; cbv beta iota delta [conv_y] in *.
  all: try exact I.
  - (* 30: ( ) *)
    repeat match goal with H : exists p, _ = Leaf _ |- _ => destruct H as (? & ->) end.
    intros ty H. cbn in H. injection H as <-. reflexivity.
  - (* 31: Path *)
    intros ty H. cbn [a_type] in H.
    match goal with Hp : forall p, a_path ?t = Some p -> _ |- _ => destruct (a_path t) as [p|] eqn:E; [|discriminate]; destruct (Hp _ eq_refl) as (_ & Hy) end.
    cbn in H. injection H as <-. rewrite yield_node. cbn [flat_map]. rewrite app_nil_r. exact Hy.
  - (* 32: ComplexType *)
    intros ty H. rewrite yield_node. cbn [flat_map]. rewrite app_nil_r.
    match goal with H' : forall ty, a_type (Node 32 [_]) = Some ty -> _ |- _ => exact (H' ty H) end.
  - (* 33: Ident *)
    intros p H. cbn [a_path] in H.
    match goal with Hi : forall i, a_ident ?t = Some i -> _ |- _ => destruct (a_ident t) as [i|] eqn:E; [|discriminate]; pose proof (Hi _ eq_refl) as Hyi end.
    cbn in H. injection H as <-. split; [discriminate|]. rewrite yield_node. cbn [flat_map]. rewrite app_nil_r, Hyi. reflexivity.
  - (* 34: Path :: Ident *)
    repeat match goal with H : exists p, _ = Leaf _ |- _ => destruct H as (? & ->) end.
    intros p H. cbn [a_path] in H.
    match goal with Hp : forall p, a_path ?l = Some p -> _ |- _ => destruct (a_path l) as [ls|] eqn:El; [|discriminate]; destruct (Hp _ eq_refl) as (Hne & Hy) end.
    cbn [obind] in H.
    match goal with Hi : forall i, a_ident ?t = Some i -> _ |- _ => destruct (a_ident t) as [i|] eqn:Ei; [|discriminate]; pose proof (Hi _ eq_refl) as Hyi end.
    cbn in H. injection H as <-. split; [destruct ls; discriminate|].
    rewrite yield_node. cbn [flat_map]. rewrite app_nil_r, Hyi. cbn [yield app]. rewrite (List.map_app tytok_of), Hy. cbn [map tytok_of].
    rewrite (List.map_app id_name). cbn [map]. rewrite path_tokens_snoc by (destruct ls; [contradiction|discriminate]). reflexivity.
  - (* 35: Path < Types > *)
    repeat match goal with H : exists p, _ = Leaf _ |- _ => destruct H as (? & ->) end.
    intros ty H.
    match goal with Ha : forall c x y ty, _ -> _ |- _ => destruct (Ha _ _ _ ty H) as (cp & args & Hc & -> & Hne & Hy) end.
    match goal with Hp : forall p, a_path ?l = Some p -> _ |- _ => destruct (Hp _ Hc) as (_ & Hyp) end.
    rewrite yield_node. cbn [flat_map]. rewrite app_nil_r. cbn [yield app].
    rewrite (List.map_app tytok_of), Hyp. cbn [map tytok_of]. rewrite (List.map_app tytok_of), Hy. cbn [map tytok_of].
    rewrite ty_tokens_complex. cbn [app]. reflexivity.
  - (* 36: Type *)
    intros cc xx yy ty H. cbn [a_type] in H. destruct (a_path cc) as [cp|] eqn:Ec; [|discriminate]. cbn [obind] in H.
    match goal with Ht : forall ty, a_type ?t = Some ty -> _ |- _ => destruct (a_type t) as [x'|] eqn:Ex; [|discriminate]; pose proof (Ht _ eq_refl) as Hyx end.
    cbn in H. injection H as <-. exists cp, [x']. split; [reflexivity|]. split; [reflexivity|]. split; [discriminate|].
    rewrite yield_node. cbn [flat_map]. rewrite app_nil_r. exact Hyx.
  - (* 37: Types , Type *)
    repeat match goal with H : exists p, _ = Leaf _ |- _ => destruct H as (? & ->) end.
    intros cc xx yy ty H.
    match goal with Ha : forall c x y ty, a_type (Node 32 [Node 35 [c; x; ?l; y]]) = Some ty -> _ |- _ =>
      pose proof (Ha cc xx yy) as Hl end.
    cbn [a_type] in H, Hl. destruct (a_path cc) as [cp|] eqn:Ec; [|discriminate]. cbn [obind] in H, Hl.
    match type of Hl with forall ty, obind (?f y) _ = _ -> _ => destruct (f y) as [ls|] eqn:El; [|discriminate] end.
    cbn [obind] in H, Hl.
    destruct (Hl _ eq_refl) as (cp0 & args & E1 & E2 & Hne & Hy). injection E1 as <-. injection E2 as <-.
    destruct (a_type y1) as [x'|] eqn:Ex; [|discriminate]. cbn [obind] in H. injection H as <-.
    exists cp, (ls ++ [x']). split; [reflexivity|]. split; [reflexivity|]. split; [destruct ls; discriminate|].
    rewrite yield_node. cbn [flat_map]. rewrite app_nil_r. cbn [yield app].
    rewrite (List.map_app tytok_of), Hy. cbn [map tytok_of]. rewrite (H3 _ eq_refl).
    rewrite args_tokens_snoc by exact Hne. reflexivity.
Qed.

Theorem type_yield : forall x t, wf token_kind kiki_ptable x t -> conv_y x t.
Proof.
  apply (wf_mind token_kind kiki_ptable (fun x t => conv_y x t) (fun xs ts => Forall2 conv_y xs ts)).
  - apply leaf_y.
  - intros r ru ch Hr _ IH. apply node_y; assumption.
  - constructor.
  - intros x xs t ts _ Hx _ Hxs. constructor; assumption.
Qed.

(* the statement for Type: the tokens of the subtree are the tokens of the type built from it *)
Corollary a_type_tokens t ty : wf token_kind kiki_ptable (PN nType) t -> a_type t = Some ty ->
  map tytok_of (yield t) = ty_tokens ty.
Proof. intros H. exact (type_yield _ _ H ty). Qed.
