(* Front/Cst2Ast.v — from the parse tree of the front end to the AST.
   Models the reduce functions of kiki/src/parser.rs (which build the typed CST)
   composed with kiki/src/pipeline/cst_to_ast.rs (which flattens it).  Rule
   numbers are those of Front/KikiGrammar.v.  A tree of the wrong shape is what
   `.ok().unwrap()` in a reduce function would panic on: None.  No proofs. *)
From Kiki Require Import Base.Ord Base.Chars Data LR.Driver.
Open Scope nat_scope.

Definition ttree := tree (P := token).

Definition a_ident (t : ttree) : option ident :=
  match t with Leaf (TIdent i) => Some i | _ => None end.
Definition a_tident (t : ttree) : option tident :=
  match t with Leaf (TTerminalIdent i) => Some i | _ => None end.
Definition a_attr (t : ttree) : option attribute :=
  match t with Leaf (TOuterAttribute a) => Some a | _ => None end.

Definition obind {A B} (o : option A) (f : A -> option B) : option B :=
  match o with Some a => f a | None => None end.
Notation "'let?' x := o 'in' k" := (obind o (fun x => k))
  (at level 200, x pattern, o at level 100, k at level 200, right associativity).

Definition a_iot (t : ttree) : option ident_or_tident :=
  match t with
  | Node 40 [x] => option_map IOTIdent (a_ident x)
  | Node 41 [x] => option_map IOTTerminal (a_tident x)
  | _ => None
  end.

Definition a_iou (t : ttree) : option ident_or_underscore :=
  match t with
  | Node 38 [x] => option_map IOUIdent (a_ident x)
  | Node 39 [Leaf (TUnderscore p)] => Some (IOUUnderscore p)
  | _ => None
  end.

Fixpoint a_attrs (t : ttree) : option (list attribute) :=
  match t with
  | Node 10 [] => Some []
  | Node 11 [l; r] => let? ls := a_attrs l in let? a := a_attr r in Some (ls ++ [a])
  | _ => None
  end.

Definition a_named_field (t : ttree) : option named_field :=
  match t with
  | Node 18 [n; _; s] =>
      let? n' := a_iou n in let? s' := a_iot s in Some {| nf_name := n'; nf_symbol := s' |}
  | _ => None
  end.

Fixpoint a_named_fields (t : ttree) : option (list named_field) :=
  match t with
  | Node 16 [f] => let? f' := a_named_field f in Some [f']
  | Node 17 [l; f] => let? ls := a_named_fields l in let? f' := a_named_field f in Some (ls ++ [f'])
  | _ => None
  end.

Definition a_tuple_field (t : ttree) : option tuple_field :=
  match t with
  | Node 22 [s] => option_map TFUsed (a_iot s)
  | Node 23 [_; _; s] => option_map TFSkipped (a_iot s)
  | _ => None
  end.

Fixpoint a_tuple_fields (t : ttree) : option (list tuple_field) :=
  match t with
  | Node 20 [f] => let? f' := a_tuple_field f in Some [f']
  | Node 21 [l; f] => let? ls := a_tuple_fields l in let? f' := a_tuple_field f in Some (ls ++ [f'])
  | _ => None
  end.

Definition a_fieldset (t : ttree) : option fieldset :=
  match t with
  | Node 12 [] => Some FEmpty
  | Node 13 [Node 15 [_; fs; _]] => option_map FNamed (a_named_fields fs)
  | Node 14 [Node 19 [_; fs; _]] => option_map FTuple (a_tuple_fields fs)
  | _ => None
  end.

Definition a_enum_variant (t : ttree) : option enum_variant :=
  match t with
  | Node 26 [n; fs] =>
      let? n' := a_ident n in let? fs' := a_fieldset fs in Some {| ev_name := n'; ev_fieldset := fs' |}
  | _ => None
  end.

Fixpoint a_enum_variants (t : ttree) : option (list enum_variant) :=
  match t with
  | Node 24 [] => Some []
  | Node 25 [l; v] => let? ls := a_enum_variants l in let? v' := a_enum_variant v in Some (ls ++ [v'])
  | _ => None
  end.

Fixpoint a_path (t : ttree) : option (list ident) :=
  match t with
  | Node 33 [i] => let? i' := a_ident i in Some [i']
  | Node 34 [l; _; i] => let? ls := a_path l in let? i' := a_ident i in Some (ls ++ [i'])
  | _ => None
  end.

(* Type / ComplexType / CommaSeparatedTypes are mutually recursive; one function
   over the tree with the expected nonterminal given by the rule number *)
Fixpoint a_type (t : ttree) : option type :=
  match t with
  | Node 30 [_; _] => Some TyUnit
  | Node 31 [p] => option_map TyPath (a_path p)
  | Node 32 [Node 35 [callee; _; args; _]] =>
      let? c := a_path callee in
      let? a := (fix a_types (t : ttree) : option (list type) :=
                   match t with
                   | Node 36 [x] => let? x' := a_type x in Some [x']
                   | Node 37 [l; _; x] => let? ls := a_types l in let? x' := a_type x in Some (ls ++ [x'])
                   | _ => None
                   end) args in
      Some (TyComplex c a)
  | _ => None
  end.

Definition a_tenum_variant (t : ttree) : option tenum_variant :=
  match t with
  | Node 29 [n; _; ty] =>
      let? n' := a_tident n in let? ty' := a_type ty in Some {| tv_name := n'; tv_type := ty' |}
  | _ => None
  end.

Fixpoint a_tenum_variants (t : ttree) : option (list tenum_variant) :=
  match t with
  | Node 27 [] => Some []
  | Node 28 [l; v] => let? ls := a_tenum_variants l in let? v' := a_tenum_variant v in Some (ls ++ [v'])
  | _ => None
  end.

Definition a_item (t : ttree) : option file_item :=
  match t with
  | Node 3 [_; i] => option_map IStart (a_ident i)
  | Node 4 [Node 7 [attrs; _; n; fs]] =>
      let? a := a_attrs attrs in let? n' := a_ident n in let? fs' := a_fieldset fs in
      Some (IStruct {| sd_attrs := a; sd_name := n'; sd_fieldset := fs' |})
  | Node 5 [Node 8 [attrs; _; n; _; vs; _]] =>
      let? a := a_attrs attrs in let? n' := a_ident n in let? vs' := a_enum_variants vs in
      Some (IEnum {| ed_attrs := a; ed_name := n'; ed_variants := vs' |})
  | Node 6 [Node 9 [attrs; _; n; _; vs; _]] =>
      let? a := a_attrs attrs in let? n' := a_ident n in let? vs' := a_tenum_variants vs in
      Some (ITerminal {| td_attrs := a; td_name := n'; td_variants := vs' |})
  | _ => None
  end.

Fixpoint a_items (t : ttree) : option (list file_item) :=
  match t with
  | Node 1 [] => Some []
  | Node 2 [l; i] => let? ls := a_items l in let? i' := a_item i in Some (ls ++ [i'])
  | _ => None
  end.

Definition a_file (t : ttree) : option ast_file :=
  match t with
  | Node 0 [items] => a_items items
  | _ => None
  end.
