(* Front/SelfHost.v — Kiki's own front-end tables (read from parser.rs on this run) are exactly the
   tables the model of `generate` produces from parser.kiki (by vm_compute on the two regenerated
   texts).  So everything proved for the tables of EVERY accepted grammar (Tier B: PipelineProofs.v)
   holds for the front end, with no validator and no hints — in particular the full C03 statement:
   a syntax error is reported neither too late nor too early (the published grammar has only
   productive symbols: LR/Productive.v, checked by vm_compute). *)
From Coq Require Import List Arith Lia Bool Permutation String.
From Kiki Require Import Base.Ord Base.Chars Data Lex.Model LR.Driver LR.Grammar LR.Inv LR.Viable LR.Productive
  Front.KikiGrammar Front.Parse Front.KikiValid Emit.Parser Pipeline PipelineProofs.
From Kiki Require Gen.KikiTables.
Import ListNotations.
Open Scope nat_scope.

Definition self_src : str := s2l Gen.KikiTables.parser_kiki_src.

Definition self_out : option gen_out :=
  match generate_full ho_id [] self_src with Ok (o, _) => Some o | _ => None end.

Lemma self_generated : exists out, self_out = Some out /\ ptable_of (go_file out) (go_table out) = Some kiki_ptable.
Proof. eexists. split; vm_compute; reflexivity. Qed.

Theorem front_end_tables_are_generated_from_parser_kiki :
  exists out text, generate_full ho_id [] self_src = Ok (out, text) /\ ptable_of (go_file out) (go_table out) = Some kiki_ptable.
Proof.
  destruct self_generated as (out & Ho & Hpt). unfold self_out in Ho.
  destruct (generate_full ho_id [] self_src) as [[o text]| | |]; try discriminate. injection Ho as ->. eauto.
Qed.

Lemma ho_id_perm : perm_hash_order ho_id.
Proof. split; [|split]; intros l; cbn; reflexivity. Qed.

(* one token of every kind *)
Definition tok_of_kind (k : nat) : token :=
  nth k [TUnderscore 0; TIdent {| id_name := []; id_pos := 0 |}; TTerminalIdent {| ti_name := []; ti_dpos := 0 |};
         TOuterAttribute {| at_src := []; at_pos := 0 |}; TStartKw 0; TStructKw 0; TEnumKw 0; TTerminalKw 0; TColon 0; TDoubleColon 0;
         TComma 0; TLParen 0; TRParen 0; TLCurly 0; TRCurly 0; TLAngle 0; TRAngle 0]%N (TUnderscore 0%N).

Lemma tok_of_kind_ok k : k < pt_nterm kiki_ptable -> token_kind (tok_of_kind k) = k.
Proof.
  change (pt_nterm kiki_ptable) with (length Gen.KikiTables.rs_terminals). intros H.
  assert (Hl : length Gen.KikiTables.rs_terminals = 17) by reflexivity. rewrite Hl in H.
  do 17 (destruct k as [|k]; [reflexivity|]). lia.
Qed.

Lemma kiki_grammar_productive : productive_check kiki_ptable 12 = true.
Proof. vm_compute. reflexivity. Qed.

(* C09 / C03 for the front end, both directions *)
Theorem front_end_reject_exact : forall fuel (w : list token) tok,
  parse token_kind kiki_ptable fuel w = OReject tok ->
  exists consumed rest,
    w = consumed ++ rest /\ tok = hd_error rest /\
    (forall x r z, rest = x :: r -> ~ sentence token_kind kiki_ptable (consumed ++ x :: z)) /\
    (exists z, sentence token_kind kiki_ptable (consumed ++ z)).
Proof.
  intros fuel w tok H.
  destruct front_end_tables_are_generated_from_parser_kiki as (out & text & Hgen & Hpt).
  destruct (productive_check_sound token_kind kiki_ptable tok_of_kind tok_of_kind_ok 12 kiki_grammar_productive) as (Hprod & Hstart).
  destruct (emitted_parser_reject_exact token_kind ho_id [] self_src out text kiki_ptable ho_id_perm Hgen Hpt Hprod Hstart fuel w tok
              (all_tokens_bounded w) H) as (consumed & rest & H1 & H2 & _ & H3 & H4).
  exists consumed, rest. auto.
Qed.
