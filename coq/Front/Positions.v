(* Front/Positions.v — the parser and cst_to_ast carry token positions into the AST and do
   nothing else with them: on the same tokens with every position erased they return the same
   tree / the same AST with every position erased. *)
From Coq Require Import List Arith NArith Lia Bool.
From Kiki Require Import Base.Ord Base.Chars Data DataProofs LR.Driver LR.Payload Front.KikiGrammar Front.Cst2Ast Front.Parse
  Ast.Validate Build.Machine Build.Table Emit.Emit Emit.Positions Ast.Positions.
Import ListNotations.
Open Scope nat_scope.

Definition erase_tok (t : token) : token :=
  match t with
  | TUnderscore _ => TUnderscore 0%N
  | TIdent i => TIdent (erase_ident i)
  | TTerminalIdent i => TTerminalIdent (erase_tident i)
  | TOuterAttribute a => TOuterAttribute (erase_attr a)
  | TStartKw _ => TStartKw 0%N | TStructKw _ => TStructKw 0%N | TEnumKw _ => TEnumKw 0%N | TTerminalKw _ => TTerminalKw 0%N
  | TColon _ => TColon 0%N | TDoubleColon _ => TDoubleColon 0%N | TComma _ => TComma 0%N
  | TLParen _ => TLParen 0%N | TRParen _ => TRParen 0%N | TLCurly _ => TLCurly 0%N | TRCurly _ => TRCurly 0%N
  | TLAngle _ => TLAngle 0%N | TRAngle _ => TRAngle 0%N
  end.

Lemma token_kind_erase t : token_kind (erase_tok t) = token_kind t.
Proof. destruct t; reflexivity. Qed.

Notation et := (tmap erase_tok).

(* induction over trees with the children as a list *)
Lemma ttree_ind (Q : ttree -> Prop) :
  (forall p, Q (Leaf p)) -> (forall r ch, Forall Q ch -> Q (Node r ch)) -> forall t, Q t.
Proof.
  intros H1 H2. fix IH 1. intros [p|r ch]; [apply H1|]. apply H2. induction ch as [|c ch IHc]; constructor; [apply IH|exact IHc].
Qed.

Ltac finish_opts :=
  cbn [obind option_map];
  repeat (match goal with
          | |- context [a_ident ?x] => destruct (a_ident x); cbn [obind option_map]
          | |- context [a_tident ?x] => destruct (a_tident x); cbn [obind option_map]
          | |- context [a_attr ?x] => destruct (a_attr x); cbn [obind option_map]
          | |- context [a_iot ?x] => destruct (a_iot x); cbn [obind option_map]
          | |- context [a_iou ?x] => destruct (a_iou x); cbn [obind option_map]
          | |- context [a_attrs ?x] => destruct (a_attrs x); cbn [obind option_map]
          | |- context [a_named_field ?x] => destruct (a_named_field x); cbn [obind option_map]
          | |- context [a_named_fields ?x] => destruct (a_named_fields x); cbn [obind option_map]
          | |- context [a_tuple_field ?x] => destruct (a_tuple_field x); cbn [obind option_map]
          | |- context [a_tuple_fields ?x] => destruct (a_tuple_fields x); cbn [obind option_map]
          | |- context [a_fieldset ?x] => destruct (a_fieldset x); cbn [obind option_map]
          | |- context [a_enum_variant ?x] => destruct (a_enum_variant x); cbn [obind option_map]
          | |- context [a_enum_variants ?x] => destruct (a_enum_variants x); cbn [obind option_map]
          | |- context [a_path ?x] => destruct (a_path x); cbn [obind option_map]
          | |- context [a_type ?x] => destruct (a_type x); cbn [obind option_map]
          | |- context [a_tenum_variant ?x] => destruct (a_tenum_variant x); cbn [obind option_map]
          | |- context [a_tenum_variants ?x] => destruct (a_tenum_variants x); cbn [obind option_map]
          | |- context [a_item ?x] => destruct (a_item x); cbn [obind option_map]
          | |- context [a_items ?x] => destruct (a_items x); cbn [obind option_map]
          end); try reflexivity.

(* case analysis on the rule number and the number of children, closing the shapes no converter accepts *)
Ltac shapes r ch :=
  do 42 (try (destruct r as [|r])); (try (destruct ch as [|?c1 [|?c2 [|?c3 [|?c4 [|?c5 [|?c6 [|?c7 ?ch]]]]]]])); cbn [tmap map]; try reflexivity.

Lemma a_ident_erase t : a_ident (et t) = option_map erase_ident (a_ident t).
Proof. destruct t as [[]|]; reflexivity. Qed.
Lemma a_tident_erase t : a_tident (et t) = option_map erase_tident (a_tident t).
Proof. destruct t as [[]|]; reflexivity. Qed.
Lemma a_attr_erase t : a_attr (et t) = option_map erase_attr (a_attr t).
Proof. destruct t as [[]|]; reflexivity. Qed.

Lemma a_iot_erase t : a_iot (et t) = option_map erase_iot (a_iot t).
Proof.
  destruct t as [p|r ch]; [reflexivity|]. shapes r ch; cbn [a_iot]; rewrite ?a_ident_erase, ?a_tident_erase; finish_opts.
Qed.

Lemma a_iou_erase t : a_iou (et t) = option_map erase_iou (a_iou t).
Proof.
  destruct t as [p|r ch]; [reflexivity|]. shapes r ch; cbn [a_iou]; rewrite ?a_ident_erase; finish_opts.
  all: destruct c1 as [[]|]; reflexivity.
Qed.

Ltac inv_forall :=
  repeat match goal with
         | H : Forall _ (_ :: _) |- _ => inversion H; subst; clear H
         | H : Forall _ [] |- _ => clear H
         end.

Lemma a_attrs_erase : forall t, a_attrs (et t) = option_map (map erase_attr) (a_attrs t).
Proof.
  intros t; pattern t; apply ttree_ind; [intros p; reflexivity|intros r ch IH]. shapes r ch; cbn [a_attrs]; inv_forall.
  match goal with H : a_attrs (et ?x) = _ |- _ => rewrite H end. rewrite a_attr_erase. finish_opts. rewrite map_app. reflexivity.
Qed.

Lemma a_named_field_erase t : a_named_field (et t) = option_map erase_nf (a_named_field t).
Proof. destruct t as [p|r ch]; [reflexivity|]. shapes r ch; cbn [a_named_field]; rewrite ?a_iou_erase, ?a_iot_erase; finish_opts. Qed.

Lemma a_named_fields_erase : forall t, a_named_fields (et t) = option_map (map erase_nf) (a_named_fields t).
Proof.
  intros t; pattern t; apply ttree_ind; [intros p; reflexivity|intros r ch IH]. shapes r ch; cbn [a_named_fields]; inv_forall; rewrite ?a_named_field_erase.
  - finish_opts.
  - match goal with H : a_named_fields (et ?x) = _ |- _ => rewrite H end. finish_opts. rewrite map_app. reflexivity.
Qed.

Lemma a_tuple_field_erase t : a_tuple_field (et t) = option_map erase_tf (a_tuple_field t).
Proof. destruct t as [p|r ch]; [reflexivity|]. shapes r ch; cbn [a_tuple_field]; rewrite ?a_iot_erase; finish_opts. Qed.

Lemma a_tuple_fields_erase : forall t, a_tuple_fields (et t) = option_map (map erase_tf) (a_tuple_fields t).
Proof.
  intros t; pattern t; apply ttree_ind; [intros p; reflexivity|intros r ch IH]. shapes r ch; cbn [a_tuple_fields]; inv_forall; rewrite ?a_tuple_field_erase.
  - finish_opts.
  - match goal with H : a_tuple_fields (et ?x) = _ |- _ => rewrite H end. finish_opts. rewrite map_app. reflexivity.
Qed.

Lemma a_fieldset_erase t : a_fieldset (et t) = option_map erase_fs (a_fieldset t).
Proof.
  destruct t as [p|r ch]; [reflexivity|]. shapes r ch; cbn [a_fieldset].
  all: try (destruct c1 as [p1|r1 ch1]; [reflexivity|]; shapes r1 ch1).
  all: rewrite ?a_named_fields_erase, ?a_tuple_fields_erase; finish_opts.
Qed.

Lemma a_enum_variant_erase t : a_enum_variant (et t) = option_map erase_ev (a_enum_variant t).
Proof. destruct t as [p|r ch]; [reflexivity|]. shapes r ch; cbn [a_enum_variant]; rewrite ?a_ident_erase, ?a_fieldset_erase; finish_opts. Qed.

Lemma a_enum_variants_erase : forall t, a_enum_variants (et t) = option_map (map erase_ev) (a_enum_variants t).
Proof.
  intros t; pattern t; apply ttree_ind; [intros p; reflexivity|intros r ch IH]. shapes r ch; cbn [a_enum_variants]; inv_forall.
  match goal with H : a_enum_variants (et ?x) = _ |- _ => rewrite H end. rewrite a_enum_variant_erase. finish_opts. rewrite map_app. reflexivity.
Qed.

Lemma a_path_erase : forall t, a_path (et t) = option_map (map erase_ident) (a_path t).
Proof.
  intros t; pattern t; apply ttree_ind; [intros p; reflexivity|intros r ch IH]. shapes r ch; cbn [a_path]; inv_forall; rewrite ?a_ident_erase.
  - finish_opts.
  - match goal with H : a_path (et ?x) = _ |- _ => rewrite H end. finish_opts. rewrite map_app. reflexivity.
Qed.

(* types: the argument list of a generic type is read by a local function of a_type; it is
   characterised through a_type on a wrapping node *)
Definition wrap (c x t y : ttree) : ttree := Node 32 [Node 35 [c; x; t; y]].

Definition dummy_path : ttree := Node 33 [Leaf (TIdent {| id_name := []; id_pos := 0%N |})].

Definition PW (t : ttree) : Prop :=
  a_type (et t) = option_map erase_ty (a_type t) /\
  (forall c x y, a_path c <> None -> a_type (et (wrap c x t y)) = option_map erase_ty (a_type (wrap c x t y))).

Lemma a_type_erase_gen : forall t, PW t /\ (forall r ch, t = Node r ch -> Forall PW ch).
Proof.
  intros t; pattern t; apply ttree_ind; [intros p; split; [split; [reflexivity|]|discriminate]|intros r ch IH].
  - intros c x y Hc. unfold wrap. cbn [tmap map a_type]. rewrite a_path_erase. destruct (a_path c); [|contradiction]. reflexivity.
  - assert (IHc : Forall PW ch) by (clear -IH; induction IH as [|c l (Hc & _) _ IHl]; constructor; assumption).
    split; [|intros r' ch' E; injection E as <- <-; exact IHc]. split.
    + shapes r ch; cbn [a_type]; inv_forall.
      all: try (rewrite a_path_erase; finish_opts; fail).
      all: try (destruct c1 as [p1|r1 ch1]; [reflexivity|]; shapes r1 ch1; fail).
      (* Node 32 [c1]: the complex type; the argument list is a grandchild *)
      destruct c1 as [p1|r1 ch1]; [reflexivity|].
      match goal with H : PW (Node r1 ch1) /\ _ |- _ => destruct H as (_ & Hg) end. specialize (Hg r1 ch1 eq_refl).
      shapes r1 ch1. inv_forall.
      match goal with H : PW c3 |- _ => destruct H as (_ & HW) end.
      assert (Hd : a_path c1 <> None \/ a_path c1 = None) by (destruct (a_path c1); [left; discriminate|right; reflexivity]).
      destruct Hd as [Hd|Hd].
      * exact (HW c1 c2 c4 Hd).
      * cbn [a_type]. rewrite a_path_erase, Hd. reflexivity.
    + intros c x y Hc. unfold wrap. cbn [tmap map].
      shapes r ch; cbn [a_type]; rewrite ?a_path_erase; inv_forall.
      all: try (destruct (a_path c); [|contradiction]; cbn [obind option_map]; reflexivity).
      * (* 36 [x] *)
        match goal with H : PW c1 /\ _ |- _ => destruct H as ((Hty & _) & _) end. rewrite Hty.
        destruct (a_path c); [|contradiction]. cbn [obind option_map]. destruct (a_type c1); reflexivity.
      * (* 37 [l; _; x] *)
        match goal with H : PW c3 /\ _ |- _ => destruct H as ((Hty3 & _) & _) end.
        match goal with H : PW c1 /\ _ |- _ => destruct H as ((_ & Hl) & _) end.
        specialize (Hl dummy_path (Leaf (TComma 0%N)) (Leaf (TComma 0%N)) ltac:(discriminate)).
        unfold wrap in Hl. cbn [tmap map a_type a_path a_ident dummy_path obind option_map erase_tok] in Hl.
        rewrite Hty3. destruct (a_path c); [|contradiction]. cbn [obind option_map].
        match type of Hl with context [obind ?e _] => destruct e eqn:E1 end;
          match type of Hl with _ = option_map _ (obind ?e _) => destruct e eqn:E2 end; cbn [obind option_map erase_ty] in Hl; try discriminate.
        -- injection Hl as Hl. cbn [obind]. destruct (a_type c3); cbn [obind option_map erase_ty]; [|reflexivity].
           rewrite Hl, map_app. reflexivity.
        -- reflexivity.
Qed.

Lemma a_type_erase t : a_type (et t) = option_map erase_ty (a_type t).
Proof. apply (a_type_erase_gen t). Qed.

Lemma a_tenum_variant_erase t : a_tenum_variant (et t) = option_map erase_tv (a_tenum_variant t).
Proof. destruct t as [p|r ch]; [reflexivity|]. shapes r ch; cbn [a_tenum_variant]; rewrite ?a_tident_erase, ?a_type_erase; finish_opts. Qed.

Lemma a_tenum_variants_erase : forall t, a_tenum_variants (et t) = option_map (map erase_tv) (a_tenum_variants t).
Proof.
  intros t; pattern t; apply ttree_ind; [intros p; reflexivity|intros r ch IH]. shapes r ch; cbn [a_tenum_variants]; inv_forall.
  match goal with H : a_tenum_variants (et ?x) = _ |- _ => rewrite H end. rewrite a_tenum_variant_erase. finish_opts. rewrite map_app. reflexivity.
Qed.

Lemma a_item_erase t : a_item (et t) = option_map erase_item (a_item t).
Proof.
  destruct t as [p|r ch]; [reflexivity|]. shapes r ch; cbn [a_item].
  all: try (rewrite a_ident_erase; finish_opts; fail).
  all: destruct c1 as [p1|r1 ch1]; [reflexivity|]; shapes r1 ch1.
  all: rewrite ?a_attrs_erase, ?a_ident_erase, ?a_fieldset_erase, ?a_enum_variants_erase, ?a_tenum_variants_erase; finish_opts.
Qed.

Lemma a_items_erase : forall t, a_items (et t) = option_map erase_ast (a_items t).
Proof.
  intros t; pattern t; apply ttree_ind; [intros p; reflexivity|intros r ch IH]. shapes r ch; cbn [a_items]; inv_forall.
  match goal with H : a_items (et ?x) = _ |- _ => rewrite H end. rewrite a_item_erase. finish_opts. unfold erase_ast. rewrite map_app. reflexivity.
Qed.

Theorem a_file_erase t : a_file (et t) = option_map erase_ast (a_file t).
Proof. destruct t as [p|r ch]; [reflexivity|]. shapes r ch; cbn [a_file]. apply a_items_erase. Qed.

(* the parser, on the erased tokens, returns the erased tree *)
Theorem parse_erase fuel toks :
  parse token_kind kiki_ptable fuel (map erase_tok toks) = omap erase_tok (parse token_kind kiki_ptable fuel toks).
Proof. apply (parse_tmap token_kind token_kind erase_tok token_kind_erase). Qed.
