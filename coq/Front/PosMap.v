(* Front/PosMap.v — the parser and cst_to_ast carry token positions into the AST and do nothing
   else with them: on the same tokens with every position p replaced by pf p they return the same
   tree / the same AST with pf applied to every position (for any pf). *)
From Coq Require Import List Arith NArith Lia Bool.
From Kiki Require Import Base.Ord Base.Chars Data DataProofs LR.Driver LR.Payload Front.KikiGrammar Front.Cst2Ast Front.Parse
  Ast.Validate Build.Machine Build.Table Emit.Emit Emit.Positions Ast.Positions Emit.PosMap Ast.PosMap Front.Positions.
Import ListNotations.
Open Scope nat_scope.

Section PosMap.
  Variable pf : N -> N.
  Notation pm_ident := (pm_ident pf). Notation pm_tident := (pm_tident pf). Notation pm_attr := (pm_attr pf).
  Notation pm_iot := (pm_iot pf). Notation pm_iou := (pm_iou pf). Notation pm_nf := (pm_nf pf). Notation pm_tf := (pm_tf pf).
  Notation pm_fs := (pm_fs pf). Notation pm_ev := (pm_ev pf). Notation pm_sd := (pm_sd pf). Notation pm_ed := (pm_ed pf).
  Notation pm_nt := (pm_nt pf). Notation pm_te := (pm_te pf). Notation pm_v := (pm_v pf). Notation pm_err := (pm_err pf).
  Notation pm_ty := (pm_ty pf). Notation pm_tv := (pm_tv pf). Notation pm_td := (pm_td pf). Notation pm_item := (pm_item pf).
  Notation pm_ast := (pm_ast pf).

Definition pm_tok (t : token) : token :=
  match t with
  | TUnderscore p => TUnderscore (pf p)
  | TIdent i => TIdent (pm_ident i)
  | TTerminalIdent i => TTerminalIdent (pm_tident i)
  | TOuterAttribute a => TOuterAttribute (pm_attr a)
  | TStartKw p => TStartKw (pf p) | TStructKw p => TStructKw (pf p) | TEnumKw p => TEnumKw (pf p) | TTerminalKw p => TTerminalKw (pf p)
  | TColon p => TColon (pf p) | TDoubleColon p => TDoubleColon (pf p) | TComma p => TComma (pf p)
  | TLParen p => TLParen (pf p) | TRParen p => TRParen (pf p) | TLCurly p => TLCurly (pf p) | TRCurly p => TRCurly (pf p)
  | TLAngle p => TLAngle (pf p) | TRAngle p => TRAngle (pf p)
  end.

Lemma token_kind_pm t : token_kind (pm_tok t) = token_kind t.
Proof. destruct t; reflexivity. Qed.

Notation et := (tmap pm_tok).




Lemma a_ident_pm t : a_ident (et t) = option_map pm_ident (a_ident t).
Proof. destruct t as [[]|]; reflexivity. Qed.
Lemma a_tident_pm t : a_tident (et t) = option_map pm_tident (a_tident t).
Proof. destruct t as [[]|]; reflexivity. Qed.
Lemma a_attr_pm t : a_attr (et t) = option_map pm_attr (a_attr t).
Proof. destruct t as [[]|]; reflexivity. Qed.

Lemma a_iot_pm t : a_iot (et t) = option_map pm_iot (a_iot t).
Proof.
  destruct t as [p|r ch]; [reflexivity|]. shapes r ch; cbn [a_iot]; rewrite ?a_ident_pm, ?a_tident_pm; finish_opts.
Qed.

Lemma a_iou_pm t : a_iou (et t) = option_map pm_iou (a_iou t).
Proof.
  destruct t as [p|r ch]; [reflexivity|]. shapes r ch; cbn [a_iou]; rewrite ?a_ident_pm; finish_opts.
  all: destruct c1 as [[]|]; reflexivity.
Qed.


Lemma a_attrs_pm : forall t, a_attrs (et t) = option_map (map pm_attr) (a_attrs t).
Proof.
  intros t; pattern t; apply ttree_ind; [intros p; reflexivity|intros r ch IH]. shapes r ch; cbn [a_attrs]; inv_forall.
  match goal with H : a_attrs (et ?x) = _ |- _ => rewrite H end. rewrite a_attr_pm. finish_opts. rewrite map_app. reflexivity.
Qed.

Lemma a_named_field_pm t : a_named_field (et t) = option_map pm_nf (a_named_field t).
Proof. destruct t as [p|r ch]; [reflexivity|]. shapes r ch; cbn [a_named_field]; rewrite ?a_iou_pm, ?a_iot_pm; finish_opts. Qed.

Lemma a_named_fields_pm : forall t, a_named_fields (et t) = option_map (map pm_nf) (a_named_fields t).
Proof.
  intros t; pattern t; apply ttree_ind; [intros p; reflexivity|intros r ch IH]. shapes r ch; cbn [a_named_fields]; inv_forall; rewrite ?a_named_field_pm.
  - finish_opts.
  - match goal with H : a_named_fields (et ?x) = _ |- _ => rewrite H end. finish_opts. rewrite map_app. reflexivity.
Qed.

Lemma a_tuple_field_pm t : a_tuple_field (et t) = option_map pm_tf (a_tuple_field t).
Proof. destruct t as [p|r ch]; [reflexivity|]. shapes r ch; cbn [a_tuple_field]; rewrite ?a_iot_pm; finish_opts. Qed.

Lemma a_tuple_fields_pm : forall t, a_tuple_fields (et t) = option_map (map pm_tf) (a_tuple_fields t).
Proof.
  intros t; pattern t; apply ttree_ind; [intros p; reflexivity|intros r ch IH]. shapes r ch; cbn [a_tuple_fields]; inv_forall; rewrite ?a_tuple_field_pm.
  - finish_opts.
  - match goal with H : a_tuple_fields (et ?x) = _ |- _ => rewrite H end. finish_opts. rewrite map_app. reflexivity.
Qed.

Lemma a_fieldset_pm t : a_fieldset (et t) = option_map pm_fs (a_fieldset t).
Proof.
  destruct t as [p|r ch]; [reflexivity|]. shapes r ch; cbn [a_fieldset].
  all: try (destruct c1 as [p1|r1 ch1]; [reflexivity|]; shapes r1 ch1).
  all: rewrite ?a_named_fields_pm, ?a_tuple_fields_pm; finish_opts.
Qed.

Lemma a_enum_variant_pm t : a_enum_variant (et t) = option_map pm_ev (a_enum_variant t).
Proof. destruct t as [p|r ch]; [reflexivity|]. shapes r ch; cbn [a_enum_variant]; rewrite ?a_ident_pm, ?a_fieldset_pm; finish_opts. Qed.

Lemma a_enum_variants_pm : forall t, a_enum_variants (et t) = option_map (map pm_ev) (a_enum_variants t).
Proof.
  intros t; pattern t; apply ttree_ind; [intros p; reflexivity|intros r ch IH]. shapes r ch; cbn [a_enum_variants]; inv_forall.
  match goal with H : a_enum_variants (et ?x) = _ |- _ => rewrite H end. rewrite a_enum_variant_pm. finish_opts. rewrite map_app. reflexivity.
Qed.

Lemma a_path_pm : forall t, a_path (et t) = option_map (map pm_ident) (a_path t).
Proof.
  intros t; pattern t; apply ttree_ind; [intros p; reflexivity|intros r ch IH]. shapes r ch; cbn [a_path]; inv_forall; rewrite ?a_ident_pm.
  - finish_opts.
  - match goal with H : a_path (et ?x) = _ |- _ => rewrite H end. finish_opts. rewrite map_app. reflexivity.
Qed.

(* types: the argument list of a generic type is read by a local function of a_type; it is
   characterised through a_type on a wrapping node *)


Definition PW (t : ttree) : Prop :=
  a_type (et t) = option_map pm_ty (a_type t) /\
  (forall c x y, a_path c <> None -> a_type (et (wrap c x t y)) = option_map pm_ty (a_type (wrap c x t y))).

Lemma a_type_pm_gen : forall t, PW t /\ (forall r ch, t = Node r ch -> Forall PW ch).
Proof.
  intros t; pattern t; apply ttree_ind; [intros p; split; [split; [reflexivity|]|discriminate]|intros r ch IH].
  - intros c x y Hc. unfold wrap. cbn [tmap map a_type]. rewrite a_path_pm. destruct (a_path c); [|contradiction]. reflexivity.
  - assert (IHc : Forall PW ch) by (clear -IH; induction IH as [|c l (Hc & _) _ IHl]; constructor; assumption).
    split; [|intros r' ch' E; injection E as <- <-; exact IHc]. split.
    + shapes r ch; cbn [a_type]; inv_forall.
      all: try (rewrite a_path_pm; finish_opts; fail).
      all: try (destruct c1 as [p1|r1 ch1]; [reflexivity|]; shapes r1 ch1; fail).
      (* Node 32 [c1]: the complex type; the argument list is a grandchild *)
      destruct c1 as [p1|r1 ch1]; [reflexivity|].
      match goal with H : PW (Node r1 ch1) /\ _ |- _ => destruct H as (_ & Hg) end. specialize (Hg r1 ch1 eq_refl).
      shapes r1 ch1. inv_forall.
      match goal with H : PW c3 |- _ => destruct H as (_ & HW) end.
      assert (Hd : a_path c1 <> None \/ a_path c1 = None) by (destruct (a_path c1); [left; discriminate|right; reflexivity]).
      destruct Hd as [Hd|Hd].
      * exact (HW c1 c2 c4 Hd).
      * cbn [a_type]. rewrite a_path_pm, Hd. reflexivity.
    + intros c x y Hc. unfold wrap. cbn [tmap map].
      shapes r ch; cbn [a_type]; rewrite ?a_path_pm; inv_forall.
      all: try (destruct (a_path c); [|contradiction]; cbn [obind option_map]; reflexivity).
      * (* 36 [x] *)
        match goal with H : PW c1 /\ _ |- _ => destruct H as ((Hty & _) & _) end. rewrite Hty.
        destruct (a_path c); [|contradiction]. cbn [obind option_map]. destruct (a_type c1); reflexivity.
      * (* 37 [l; _; x] *)
        match goal with H : PW c3 /\ _ |- _ => destruct H as ((Hty3 & _) & _) end.
        match goal with H : PW c1 /\ _ |- _ => destruct H as ((_ & Hl) & _) end.
        specialize (Hl dummy_path (Leaf (TComma 0%N)) (Leaf (TComma 0%N)) ltac:(discriminate)).
        unfold wrap in Hl. cbn [tmap map a_type a_path a_ident dummy_path obind option_map pm_tok] in Hl.
        rewrite Hty3. destruct (a_path c); [|contradiction]. cbn [obind option_map].
        match type of Hl with context [obind ?e _] => destruct e eqn:E1 end;
          match type of Hl with _ = option_map _ (obind ?e _) => destruct e eqn:E2 end; cbn [obind option_map pm_ty] in Hl; try discriminate.
        -- injection Hl as Hl. cbn [obind]. destruct (a_type c3); cbn [obind option_map pm_ty]; [|reflexivity].
           rewrite Hl, map_app. reflexivity.
        -- reflexivity.
Qed.

Lemma a_type_pm t : a_type (et t) = option_map pm_ty (a_type t).
Proof. apply (a_type_pm_gen t). Qed.

Lemma a_tenum_variant_pm t : a_tenum_variant (et t) = option_map pm_tv (a_tenum_variant t).
Proof. destruct t as [p|r ch]; [reflexivity|]. shapes r ch; cbn [a_tenum_variant]; rewrite ?a_tident_pm, ?a_type_pm; finish_opts. Qed.

Lemma a_tenum_variants_pm : forall t, a_tenum_variants (et t) = option_map (map pm_tv) (a_tenum_variants t).
Proof.
  intros t; pattern t; apply ttree_ind; [intros p; reflexivity|intros r ch IH]. shapes r ch; cbn [a_tenum_variants]; inv_forall.
  match goal with H : a_tenum_variants (et ?x) = _ |- _ => rewrite H end. rewrite a_tenum_variant_pm. finish_opts. rewrite map_app. reflexivity.
Qed.

Lemma a_item_pm t : a_item (et t) = option_map pm_item (a_item t).
Proof.
  destruct t as [p|r ch]; [reflexivity|]. shapes r ch; cbn [a_item].
  all: try (rewrite a_ident_pm; finish_opts; fail).
  all: destruct c1 as [p1|r1 ch1]; [reflexivity|]; shapes r1 ch1.
  all: rewrite ?a_attrs_pm, ?a_ident_pm, ?a_fieldset_pm, ?a_enum_variants_pm, ?a_tenum_variants_pm; finish_opts.
Qed.

Lemma a_items_pm : forall t, a_items (et t) = option_map pm_ast (a_items t).
Proof.
  intros t; pattern t; apply ttree_ind; [intros p; reflexivity|intros r ch IH]. shapes r ch; cbn [a_items]; inv_forall.
  match goal with H : a_items (et ?x) = _ |- _ => rewrite H end. rewrite a_item_pm. finish_opts. unfold pm_ast. rewrite map_app. reflexivity.
Qed.

Theorem a_file_pm t : a_file (et t) = option_map pm_ast (a_file t).
Proof. destruct t as [p|r ch]; [reflexivity|]. shapes r ch; cbn [a_file]. apply a_items_pm. Qed.

(* the parser, on the erased tokens, returns the erased tree *)
Theorem parse_pm fuel toks :
  parse token_kind kiki_ptable fuel (map pm_tok toks) = omap pm_tok (parse token_kind kiki_ptable fuel toks).
Proof. apply (parse_tmap token_kind token_kind pm_tok token_kind_pm). Qed.
End PosMap.
