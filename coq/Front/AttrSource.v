(* Front/AttrSource.v — C12 from the source text to the AST: the attributes the front end stores
   for a struct, enum or terminal declaration are exactly the attribute tokens that stand
   immediately before the declaration's keyword in the token sequence of the source — all of them,
   in order (the token before the first of them, if any, is not an attribute). *)
From Coq Require Import List Arith Lia Bool.
From Kiki Require Import Base.Ord Base.Chars Data LR.Driver LR.Grammar Front.KikiGrammar Front.Cst2Ast Front.Parse
  Front.CstTotal Front.TypeTokens.
Import ListNotations.
Open Scope nat_scope.

Definition not_attr (k : token) : Prop := forall a, k <> TOuterAttribute a.
Definition no_attr_end (ys : list token) : Prop := ys = [] \/ exists ys' k, ys = ys' ++ [k] /\ not_attr k.
Definition ends_plain (ys : list token) : Prop := exists ys' k, ys = ys' ++ [k] /\ not_attr k.

Lemma ends_plain_app a b : ends_plain b -> ends_plain (a ++ b).
Proof. intros (ys' & k & -> & H). exists (a ++ ys'), k. split; [rewrite app_assoc; reflexivity|exact H]. Qed.

Lemma no_attr_end_of a b : no_attr_end a -> ends_plain b -> ends_plain (a ++ b).
Proof. intros _ H. apply ends_plain_app, H. Qed.

Definition decl_ok (it : file_item) (seg : list token) : Prop :=
  match it with
  | IStart _ => True
  | IStruct s => exists p rest, seg = map TOuterAttribute (sd_attrs s) ++ TStructKw p :: TIdent (sd_name s) :: rest
  | IEnum e => exists p rest, seg = map TOuterAttribute (ed_attrs e) ++ TEnumKw p :: TIdent (ed_name e) :: rest
  | ITerminal d => exists p rest, seg = map TOuterAttribute (td_attrs d) ++ TTerminalKw p :: TIdent (td_name d) :: rest
  end.

Definition placed (it : file_item) (ys : list token) : Prop :=
  exists pre seg post, ys = pre ++ seg ++ post /\ decl_ok it seg /\ no_attr_end pre.

Definition conv_a (x : psym) (t : ttree) : Prop :=
  match x with
  | PT k => exists p, t = Leaf p /\ token_kind p = k
  | PN 6 => forall l, a_attrs t = Some l -> yield t = map TOuterAttribute l
  | PN 7 => no_attr_end (yield t)
  | PN 8 => ends_plain (yield t)
  | PN 11 => ends_plain (yield t)
  | PN 3 => ends_plain (yield t) /\ forall it, a_item (Node 4 [t]) = Some it -> decl_ok it (yield t)
  | PN 4 => ends_plain (yield t) /\ forall it, a_item (Node 5 [t]) = Some it -> decl_ok it (yield t)
  | PN 5 => ends_plain (yield t) /\ forall it, a_item (Node 6 [t]) = Some it -> decl_ok it (yield t)
  | PN 2 => ends_plain (yield t) /\ forall it, a_item t = Some it -> decl_ok it (yield t)
  | PN 1 => no_attr_end (yield t) /\ forall its, a_items t = Some its -> forall it, In it its -> placed it (yield t)
  | PN 0 => forall f, a_file t = Some f -> forall it, In it f -> placed it (yield t)
  | PN _ => True
  end.

Lemma leaf_a p : conv_a (PT (token_kind p)) (Leaf p).
Proof. exists p. auto. Qed.

Ltac leaves :=
  repeat match goal with
         | H : exists p, _ = Leaf p /\ token_kind p = _ |- _ =>
             let p := fresh "p" in let E := fresh "E" in destruct H as (p & -> & E); destruct p; try discriminate E; clear E
         end.

Lemma not_attr_rcurly p : not_attr (TRCurly p). Proof. intros a; discriminate. Qed.
Lemma not_attr_rparen p : not_attr (TRParen p). Proof. intros a; discriminate. Qed.
Lemma not_attr_ident i : not_attr (TIdent i). Proof. intros a; discriminate. Qed.

Lemma node_a r ru ch : nth_error kiki_grammar r = Some ru -> Forall2 conv_a (pr_rhs ru) ch -> conv_a (PN (pr_lhs ru)) (Node r ch).
Proof.
  intros Hr Hch.
  do 42 (try (destruct r as [|r]; [cbn in Hr; injection Hr as <-; cbn [pr_rhs pr_lhs mk map fst u s_] in Hch |- *; unfold_syms; inv_f2|])).
  all: try (exfalso; cbn in Hr; destruct r; discriminate).
  all: unfold_syms; cbv beta iota delta [conv_a] in *.
  all: try exact I.
  all: leaves.
  all: rewrite ?yield_node; cbn [flat_map yield]; rewrite ?app_nil_r.
  - (* 0 *) intros f HH. cbn [a_file] in HH. match goal with Hi : _ /\ _ |- _ => exact (proj2 Hi f HH) end.
  - (* 1 *) split; [left; reflexivity|]. intros its HH. cbn in HH. injection HH as <-. intros it [].
  - (* 2: OptItems FileItem *)
    match goal with Hl : no_attr_end (yield ?l) /\ _, Hi : ends_plain (yield ?x) /\ _ |- _ => destruct Hl as (Hle & Hlf); destruct Hi as (Hie & Hif) end.
    split; [right; apply ends_plain_app, Hie|].
    intros its HH it Hin. cbn [a_items] in HH.
    match goal with |- placed it (yield ?l ++ yield ?x) => destruct (a_items l) as [ls|] eqn:El; [|discriminate]; cbn [obind] in HH;
      destruct (a_item x) as [i'|] eqn:Ei; [|discriminate] end.
    cbn in HH. injection HH as <-. apply in_app_or in Hin as [Hin|[<-|[]]].
    + destruct (Hlf _ eq_refl it Hin) as (pre & seg & post & E & Hd & Hp). rewrite E.
      exists pre, seg, (post ++ yield y0). split; [rewrite <- !app_assoc; reflexivity|]. auto.
    + exists (yield y), (yield y0), []. split; [rewrite app_nil_r; reflexivity|]. split; [apply Hif; reflexivity|exact Hle].
  - (* 3: start Ident *)
    split; [exists [TStartKw p], (TIdent i); split; [reflexivity|apply not_attr_ident]|].
    intros it HH. cbn in HH. injection HH as <-. exact I.
  - (* 4 *) match goal with Hs : _ /\ _ |- _ => destruct Hs as (He & Hsf) end. split; [exact He|]. intros it HH. exact (Hsf it HH).
  - (* 5 *) match goal with Hs : _ /\ _ |- _ => destruct Hs as (He & Hsf) end. split; [exact He|]. intros it HH. exact (Hsf it HH).
  - (* 6 *) match goal with Hs : _ /\ _ |- _ => destruct Hs as (He & Hsf) end. split; [exact He|]. intros it HH. exact (Hsf it HH).
  - (* 7: attrs struct Ident Fieldset *)
    split.
    + match goal with Hf : no_attr_end (yield ?fs) |- _ => destruct Hf as [->|Hfe] end.
      * rewrite app_nil_r. apply ends_plain_app. exists [TStructKw p], (TIdent i). split; [reflexivity|apply not_attr_ident].
      * rewrite !app_assoc. apply ends_plain_app. exact Hfe.
    + intros it HH. cbn [a_item] in HH.
      match goal with Ha : forall l, a_attrs ?a = Some l -> _ |- _ => destruct (a_attrs a) as [l|] eqn:Ea; [|discriminate]; rewrite (Ha _ eq_refl) end.
      cbn [obind a_ident] in HH. destruct (a_fieldset _) as [fs'|]; [|discriminate]. cbn in HH. injection HH as <-.
      cbn [decl_ok sd_attrs sd_name]. eexists _, _. reflexivity.
  - (* 8: attrs enum Ident { variants } *)
    split.
    + rewrite !app_assoc. apply ends_plain_app. eexists [], _. split; [reflexivity|intros a; discriminate].
    + intros it HH. cbn [a_item] in HH.
      match goal with Ha : forall l, a_attrs ?a = Some l -> _ |- _ => destruct (a_attrs a) as [l|] eqn:Ea; [|discriminate]; rewrite (Ha _ eq_refl) end.
      cbn [obind a_ident] in HH. destruct (a_enum_variants _) as [vs'|]; [|discriminate]. cbn in HH. injection HH as <-.
      cbn [decl_ok ed_attrs ed_name]. eexists _, _. reflexivity.
  - (* 9: attrs terminal Ident { variants } *)
    split.
    + rewrite !app_assoc. apply ends_plain_app. eexists [], _. split; [reflexivity|intros a; discriminate].
    + intros it HH. cbn [a_item] in HH.
      match goal with Ha : forall l, a_attrs ?a = Some l -> _ |- _ => destruct (a_attrs a) as [l|] eqn:Ea; [|discriminate]; rewrite (Ha _ eq_refl) end.
      cbn [obind a_ident] in HH. destruct (a_tenum_variants _) as [vs'|]; [|discriminate]. cbn in HH. injection HH as <-.
      cbn [decl_ok td_attrs td_name]. eexists _, _. reflexivity.
  - (* 10 *) intros l HH. cbn in HH. injection HH as <-. reflexivity.
  - (* 11: attrs Attr *)
    intros l HH. cbn [a_attrs] in HH.
    match goal with Ha : forall l, a_attrs ?a = Some l -> _ |- _ => destruct (a_attrs a) as [ls|] eqn:Ea; [|discriminate]; rewrite (Ha _ eq_refl) end.
    cbn in HH. injection HH as <-. rewrite map_app. reflexivity.
  - (* 12 *) left. reflexivity.
  - (* 13 *) right. assumption.
  - (* 14 *) right. assumption.
  - (* 15 *) rewrite !app_assoc. apply ends_plain_app. eexists [], _. split; [reflexivity|intros a; discriminate].
  - (* 19 *) rewrite !app_assoc. apply ends_plain_app. eexists [], _. split; [reflexivity|intros a; discriminate].
Qed.

Theorem attr_source : forall x t, wf token_kind kiki_ptable x t -> conv_a x t.
Proof.
  apply (wf_mind token_kind kiki_ptable (fun x t => conv_a x t) (fun xs ts => Forall2 conv_a xs ts)).
  - apply leaf_a.
  - intros r ru ch Hr _ IH. apply node_a; assumption.
  - constructor.
  - intros x xs t ts _ Hx _ Hxs. constructor; assumption.
Qed.

(* ---------- from the source text ---------- *)
From Kiki Require Import Lex.Model LR.Inv LR.Sound LR.ValidateProofs Front.KikiValid Ast.Validate.
From Kiki Require Gen.KikiAnn.

Theorem front_end_attributes_are_the_source_tokens src toks fuel ast :
  tokenize src = Ok toks -> front_parse fuel src toks = Ok ast ->
  forall it, In it ast -> placed it toks.
Proof.
  intros Htok Hp it Hin. unfold front_parse in Hp.
  pose proof (validate_Inv2 kiki_ptable Gen.KikiAnn.kiki_ann Gen.KikiAnn.kiki_ft kiki_tables_valid) as H2.
  destruct (parse token_kind kiki_ptable fuel toks) as [t|tok|site|] eqn:Ep; try discriminate.
  - destruct (sound token_kind kiki_ptable _ H2 fuel toks t (all_tokens_bounded toks) Ep) as (Hwf & Hy).
    destruct (a_file t) as [f|] eqn:Ef; [|discriminate]. cbn in Hp. injection Hp as <-.
    pose proof (attr_source _ _ Hwf) as Hs. cbn in Hs. rewrite <- Hy. exact (Hs f Ef it Hin).
  - destruct (unexpected_to_err tok src); discriminate.
Qed.
