(* Front/Unparse.v — the front end is the inverse of a printer: `unparse` writes an AST out as a
   token sequence (positions erased), and for every token sequence the front end accepts, the
   tokens (positions erased) are exactly unparse of the AST it returns.  So the AST loses nothing
   and reorders nothing: attributes, names, variants, fields (used or `_`), symbols and payload
   types stand in the AST in the order of the source (C02, C06, C09, C12, C13 all read the
   declarations off this AST). *)
From Coq Require Import List Arith NArith Lia Bool.
From Kiki Require Import Base.Ord Base.Chars Data LR.Driver LR.Grammar Front.KikiGrammar Front.Cst2Ast Front.Parse
  Front.CstTotal Front.TypeTokens Front.AttrSource Ast.Validate Emit.Positions Ast.Positions Front.Positions.
Import ListNotations.
Open Scope nat_scope.

Definition z := 0%N.
Definition u_ident (i : ident) : list token := [TIdent (erase_ident i)].
Definition u_tident (i : tident) : list token := [TTerminalIdent (erase_tident i)].
Definition u_attrs (l : list attribute) : list token := map (fun a => TOuterAttribute (erase_attr a)) l.

Fixpoint u_path (p : list ident) : list token :=
  match p with
  | [] => []
  | [i] => u_ident i
  | i :: r => u_ident i ++ TDoubleColon z :: u_path r
  end.

Fixpoint u_type (t : type) : list token :=
  match t with
  | TyUnit => [TLParen z; TRParen z]
  | TyPath p => u_path p
  | TyComplex c args =>
      u_path c ++ [TLAngle z]
      ++ (fix go (l : list type) : list token :=
            match l with
            | [] => []
            | [x] => u_type x
            | x :: r => u_type x ++ Data.TComma z :: go r
            end) args
      ++ [TRAngle z]
  end.

Fixpoint u_args (l : list type) : list token :=
  match l with
  | [] => []
  | [x] => u_type x
  | x :: r => u_type x ++ Data.TComma z :: u_args r
  end.

Lemma u_type_complex c args : u_type (TyComplex c args) = u_path c ++ [TLAngle z] ++ u_args args ++ [TRAngle z].
Proof. reflexivity. Qed.

Definition u_iot (s : ident_or_tident) : list token :=
  match s with IOTIdent i => u_ident i | IOTTerminal t => u_tident t end.
Definition u_iou (s : ident_or_underscore) : list token :=
  match s with IOUIdent i => u_ident i | IOUUnderscore _ => [TUnderscore z] end.
Definition u_named_field (f : named_field) : list token := u_iou (nf_name f) ++ [TColon z] ++ u_iot (nf_symbol f).
Definition u_tuple_field (f : tuple_field) : list token :=
  match f with TFUsed s => u_iot s | TFSkipped s => [TUnderscore z; TColon z] ++ u_iot s end.
Definition u_fieldset (fs : fieldset) : list token :=
  match fs with
  | FEmpty => []
  | FNamed l => [TLCurly z] ++ flat_map u_named_field l ++ [TRCurly z]
  | FTuple l => [TLParen z] ++ flat_map u_tuple_field l ++ [TRParen z]
  end.
Definition u_enum_variant (v : enum_variant) : list token := u_ident (ev_name v) ++ u_fieldset (ev_fieldset v).
Definition u_tenum_variant (v : tenum_variant) : list token := u_tident (tv_name v) ++ [TColon z] ++ u_type (tv_type v).
Definition u_item (it : file_item) : list token :=
  match it with
  | IStart i => [TStartKw z] ++ u_ident i
  | IStruct s => u_attrs (sd_attrs s) ++ [TStructKw z] ++ u_ident (sd_name s) ++ u_fieldset (sd_fieldset s)
  | IEnum e => u_attrs (ed_attrs e) ++ [TEnumKw z] ++ u_ident (ed_name e) ++ [TLCurly z] ++ flat_map u_enum_variant (ed_variants e) ++ [TRCurly z]
  | ITerminal d => u_attrs (td_attrs d) ++ [TTerminalKw z] ++ u_ident (td_name d) ++ [TLCurly z] ++ flat_map u_tenum_variant (td_variants d) ++ [TRCurly z]
  end.
Definition unparse (f : ast_file) : list token := flat_map u_item f.

Lemma u_path_snoc l i : l <> [] -> u_path (l ++ [i]) = u_path l ++ TDoubleColon z :: u_ident i.
Proof.
  induction l as [|a l IH]; intros H; [contradiction|]. destruct l as [|b l]; [reflexivity|].
  change ((a :: b :: l) ++ [i]) with (a :: (b :: l) ++ [i]).
  change (u_path (a :: (b :: l) ++ [i])) with (u_ident a ++ TDoubleColon z :: u_path ((b :: l) ++ [i])).
  rewrite IH by discriminate. cbn [u_path]. rewrite <- app_assoc. reflexivity.
Qed.

Lemma u_args_snoc l x : l <> [] -> u_args (l ++ [x]) = u_args l ++ Data.TComma z :: u_type x.
Proof.
  induction l as [|a l IH]; intros H; [contradiction|]. destruct l as [|b l]; [reflexivity|].
  change ((a :: b :: l) ++ [x]) with (a :: (b :: l) ++ [x]).
  change (u_args (a :: (b :: l) ++ [x])) with (u_type a ++ Data.TComma z :: u_args ((b :: l) ++ [x])).
  rewrite IH by discriminate. cbn [u_args]. rewrite <- app_assoc. reflexivity.
Qed.

Notation ey t := (map erase_tok (yield t)).

Definition conv_u (x : psym) (t : ttree) : Prop :=
  match x with
  | PT k => exists p, t = Leaf p /\ token_kind p = k
  | PN 0 => forall f, a_file t = Some f -> ey t = unparse f
  | PN 1 => forall l, a_items t = Some l -> ey t = flat_map u_item l
  | PN 2 => forall it, a_item t = Some it -> ey t = u_item it
  | PN 3 => forall it, a_item (Node 4 [t]) = Some it -> ey t = u_item it
  | PN 4 => forall it, a_item (Node 5 [t]) = Some it -> ey t = u_item it
  | PN 5 => forall it, a_item (Node 6 [t]) = Some it -> ey t = u_item it
  | PN 6 => forall l, a_attrs t = Some l -> ey t = u_attrs l
  | PN 7 => forall fs, a_fieldset t = Some fs -> ey t = u_fieldset fs
  | PN 8 => forall fs, a_fieldset (Node 13 [t]) = Some fs -> ey t = u_fieldset fs
  | PN 9 => forall l, a_named_fields t = Some l -> ey t = flat_map u_named_field l
  | PN 10 => forall f, a_named_field t = Some f -> ey t = u_named_field f
  | PN 11 => forall fs, a_fieldset (Node 14 [t]) = Some fs -> ey t = u_fieldset fs
  | PN 12 => forall l, a_tuple_fields t = Some l -> ey t = flat_map u_tuple_field l
  | PN 13 => forall f, a_tuple_field t = Some f -> ey t = u_tuple_field f
  | PN 14 => forall l, a_enum_variants t = Some l -> ey t = flat_map u_enum_variant l
  | PN 15 => forall v, a_enum_variant t = Some v -> ey t = u_enum_variant v
  | PN 16 => forall l, a_tenum_variants t = Some l -> ey t = flat_map u_tenum_variant l
  | PN 17 => forall v, a_tenum_variant t = Some v -> ey t = u_tenum_variant v
  | PN 18 => forall ty, a_type t = Some ty -> ey t = u_type ty
  | PN 19 => forall p, a_path t = Some p -> p <> [] /\ ey t = u_path p
  | PN 20 => forall ty, a_type (Node 32 [t]) = Some ty -> ey t = u_type ty
  | PN 21 => forall c x y ty, a_type (Node 32 [Node 35 [c; x; t; y]]) = Some ty ->
                              exists cp args, a_path c = Some cp /\ ty = TyComplex cp args /\ args <> [] /\ ey t = u_args args
  | PN 22 => forall s, a_iou t = Some s -> ey t = u_iou s
  | PN 23 => forall s, a_iot t = Some s -> ey t = u_iot s
  | PN _ => True
  end.

Lemma leaf_u p : conv_u (PT (token_kind p)) (Leaf p).
Proof. exists p. auto. Qed.

(* one `let? x := e in ..` of the conversion at a time: use the induction hypothesis about e *)
Ltac step_opt HH :=
  match type of HH with
  | obind ?e _ = Some _ => let v := fresh "v" in let E := fresh "E" in destruct e as [v|] eqn:E; [cbn [obind] in HH|discriminate HH]
  | option_map _ ?e = Some _ => let v := fresh "v" in let E := fresh "E" in destruct e as [v|] eqn:E; [cbn [option_map] in HH|discriminate HH]
  end.

Ltac use_ih :=
  repeat match goal with
         | E : Some ?a = Some ?b |- _ => is_var b; injection E as <-
         end;
  repeat match goal with
         | IH : forall v, Some ?w = Some v -> _ |- _ => pose proof (IH w eq_refl) as ?; clear IH
         | IH : forall v, ?e = Some v -> _, E : ?e = Some ?w |- _ => pose proof (IH w E) as ?; clear IH
         end.

Ltac fin := repeat match goal with H : map erase_tok (yield _) = _ |- _ => rewrite H; clear H end; reflexivity.

Lemma node_u r ru ch : nth_error kiki_grammar r = Some ru -> Forall2 conv_u (pr_rhs ru) ch -> conv_u (PN (pr_lhs ru)) (Node r ch).
Proof.
  intros Hr Hch.
  do 42 (try (destruct r as [|r]; [cbn in Hr; injection Hr as <-; cbn [pr_rhs pr_lhs mk map fst u s_] in Hch |- *; unfold_syms; inv_f2|])).
  all: try (exfalso; cbn in Hr; destruct r; discriminate).
  all: unfold_syms; cbv beta iota delta [conv_u] in *.
  all: leaves.
  all: rewrite ?yield_node; cbn [flat_map yield]; rewrite ?app_nil_r.
  all: repeat rewrite (List.map_app erase_tok); cbn [map erase_tok].
  - (* 0 *) intros f HH. cbn [a_file] in HH. use_ih. assumption.
  - (* 1 *) intros l HH. cbn in HH. injection HH as <-. reflexivity.
  - (* 2 *) intros l HH. cbn [a_items] in HH. repeat step_opt HH. injection HH as <-. use_ih.
    rewrite flat_map_app. cbn [flat_map]. rewrite app_nil_r. fin.
  - (* 3 *) intros it HH. cbn in HH. injection HH as <-. reflexivity.
  - (* 4 *) intros it HH. use_ih. assumption.
  - (* 5 *) intros it HH. use_ih. assumption.
  - (* 6 *) intros it HH. use_ih. assumption.
  - (* 7 *) intros it HH. cbn [a_item a_ident] in HH. repeat step_opt HH. injection HH as <-. use_ih.
    cbn [u_item sd_attrs sd_name sd_fieldset u_ident]. fin.
  - (* 8 *) intros it HH. cbn [a_item a_ident] in HH. repeat step_opt HH. injection HH as <-. use_ih.
    cbn [u_item ed_attrs ed_name ed_variants u_ident]. fin.
  - (* 9 *) intros it HH. cbn [a_item a_ident] in HH. repeat step_opt HH. injection HH as <-. use_ih.
    cbn [u_item td_attrs td_name td_variants u_ident]. fin.
  - (* 10 *) intros l HH. cbn in HH. injection HH as <-. reflexivity.
  - (* 11 *) intros l HH. cbn [a_attrs a_attr] in HH. repeat step_opt HH. injection HH as <-. use_ih.
    unfold u_attrs in *. rewrite map_app. cbn [map]. fin.
  - (* 12 *) intros fs HH. cbn in HH. injection HH as <-. reflexivity.
  - (* 13 *) intros fs HH. use_ih. assumption.
  - (* 14 *) intros fs HH. use_ih. assumption.
  - (* 15 *) intros fs HH. cbn [a_fieldset] in HH. repeat step_opt HH. injection HH as <-. use_ih. cbn [u_fieldset]. fin.
  - (* 16 *) intros l HH. cbn [a_named_fields] in HH. repeat step_opt HH. injection HH as <-. use_ih. cbn [flat_map]. rewrite app_nil_r. assumption.
  - (* 17 *) intros l HH. cbn [a_named_fields] in HH. repeat step_opt HH. injection HH as <-. use_ih.
    rewrite flat_map_app. cbn [flat_map]. rewrite app_nil_r. fin.
  - (* 18 *) intros f HH. cbn [a_named_field] in HH. repeat step_opt HH. injection HH as <-. use_ih.
    unfold u_named_field. cbn [nf_name nf_symbol]. fin.
  - (* 19 *) intros fs HH. cbn [a_fieldset] in HH. repeat step_opt HH. injection HH as <-. use_ih. cbn [u_fieldset]. fin.
  - (* 20 *) intros l HH. cbn [a_tuple_fields] in HH. repeat step_opt HH. injection HH as <-. use_ih. cbn [flat_map]. rewrite app_nil_r. assumption.
  - (* 21 *) intros l HH. cbn [a_tuple_fields] in HH. repeat step_opt HH. injection HH as <-. use_ih.
    rewrite flat_map_app. cbn [flat_map]. rewrite app_nil_r. fin.
  - (* 22 *) intros f HH. cbn [a_tuple_field] in HH. repeat step_opt HH. injection HH as <-. use_ih. assumption.
  - (* 23 *) intros f HH. cbn [a_tuple_field] in HH. repeat step_opt HH. injection HH as <-. use_ih. cbn [u_tuple_field]. fin.
  - (* 24 *) intros l HH. cbn in HH. injection HH as <-. reflexivity.
  - (* 25 *) intros l HH. cbn [a_enum_variants] in HH. repeat step_opt HH. injection HH as <-. use_ih.
    rewrite flat_map_app. cbn [flat_map]. rewrite app_nil_r. fin.
  - (* 26 *) intros v0 HH. cbn [a_enum_variant a_ident] in HH. repeat step_opt HH. injection HH as <-. use_ih.
    unfold u_enum_variant. cbn [ev_name ev_fieldset u_ident]. fin.
  - (* 27 *) intros l HH. cbn in HH. injection HH as <-. reflexivity.
  - (* 28 *) intros l HH. cbn [a_tenum_variants] in HH. repeat step_opt HH. injection HH as <-. use_ih.
    rewrite flat_map_app. cbn [flat_map]. rewrite app_nil_r. fin.
  - (* 29 *) intros v0 HH. cbn [a_tenum_variant a_tident] in HH. repeat step_opt HH. injection HH as <-. use_ih.
    unfold u_tenum_variant. cbn [tv_name tv_type u_tident]. fin.
  - (* 30 *) intros ty HH. cbn in HH. injection HH as <-. reflexivity.
  - (* 31 *) intros ty HH. cbn [a_type] in HH. repeat step_opt HH. injection HH as <-.
    match goal with IH : forall p, Some ?w = Some p -> _ /\ _ |- _ => destruct (IH w eq_refl) as (_ & Hy) end. exact Hy.
  - (* 32 *) intros ty HH. use_ih. assumption.
  - (* 33 *) intros p0 HH. cbn [a_path a_ident] in HH. injection HH as <-. split; [discriminate|reflexivity].
  - (* 34 *) intros p0 HH. cbn [a_path a_ident] in HH. repeat step_opt HH. injection HH as <-.
    match goal with IH : forall p, Some ?w = Some p -> _ /\ _ |- _ => destruct (IH w eq_refl) as (Hne & Hy) end.
    split; [destruct v; discriminate|]. rewrite u_path_snoc by exact Hne. rewrite Hy. reflexivity.
  - (* 35 *) intros ty HH.
    match goal with Ha : forall c x y ty, _ -> _ |- _ => destruct (Ha _ _ _ ty HH) as (cp & args & Hc & -> & Hne & Hy) end.
    match goal with IH : forall p, _ = Some p -> _ /\ _ |- _ => destruct (IH _ Hc) as (_ & Hyp) end.
    rewrite u_type_complex, Hyp, Hy. reflexivity.
  - (* 36 *) intros cc xx yy ty HH. cbn [a_type] in HH. destruct (a_path cc) as [cp|] eqn:Ec; [|discriminate]. cbn [obind] in HH.
    match goal with Ht : forall ty, a_type ?t = Some ty -> _ |- _ => destruct (a_type t) as [x'|] eqn:Ex; [|discriminate]; pose proof (Ht _ eq_refl) as Hyx end.
    cbn in HH. injection HH as <-. exists cp, [x']. split; [reflexivity|]. split; [reflexivity|]. split; [discriminate|exact Hyx].
  - (* 37 *) intros cc xx yy ty HH.
    match goal with Ha : forall c x y ty, a_type (Node 32 [Node 35 [c; x; ?l; y]]) = Some ty -> _ |- _ => pose proof (Ha cc xx yy) as Hl end.
    cbn [a_type] in HH, Hl. destruct (a_path cc) as [cp|] eqn:Ec; [|discriminate]. cbn [obind] in HH, Hl.
    match type of Hl with forall ty, obind (?f ?y) _ = _ -> _ => destruct (f y) as [ls|] eqn:El; [|discriminate] end.
    cbn [obind] in HH, Hl. destruct (Hl _ eq_refl) as (cp0 & args & E1 & E2 & Hne & Hy). injection E1 as <-. injection E2 as <-.
    match goal with Ht : forall ty, a_type ?t = Some ty -> _ |- _ => destruct (a_type t) as [x'|] eqn:Ex; [|discriminate]; pose proof (Ht _ eq_refl) as Hyx end.
    cbn [obind] in HH. injection HH as <-.
    exists cp, (ls ++ [x']). split; [reflexivity|]. split; [reflexivity|]. split; [destruct ls; discriminate|].
    rewrite u_args_snoc by exact Hne. rewrite Hy, Hyx. reflexivity.
  - (* 38 *) intros s HH. cbn [a_iou a_ident] in HH. cbn in HH. injection HH as <-. reflexivity.
  - (* 39 *) intros s HH. cbn in HH. injection HH as <-. reflexivity.
  - (* 40 *) intros s HH. cbn in HH. injection HH as <-. reflexivity.
  - (* 41 *) intros s HH. cbn in HH. injection HH as <-. reflexivity.
Qed.

Theorem tree_unparse : forall x t, wf token_kind kiki_ptable x t -> conv_u x t.
Proof.
  apply (wf_mind token_kind kiki_ptable (fun x t => conv_u x t) (fun xs ts => Forall2 conv_u xs ts)).
  - apply leaf_u.
  - intros r ru ch Hr _ IH. apply node_u; assumption.
  - constructor.
  - intros x xs t ts _ Hx _ Hxs. constructor; assumption.
Qed.

(* ---------- the front end is the inverse of the printer ---------- *)
From Kiki Require Import LR.Inv LR.Sound LR.ValidateProofs Front.KikiValid.
From Kiki Require Gen.KikiAnn.

Theorem front_end_inverts_unparse fuel src toks ast :
  front_parse fuel src toks = Ok ast -> map erase_tok toks = unparse ast.
Proof.
  intros Hp. unfold front_parse in Hp.
  pose proof (validate_Inv2 kiki_ptable Gen.KikiAnn.kiki_ann Gen.KikiAnn.kiki_ft kiki_tables_valid) as H2.
  destruct (parse token_kind kiki_ptable fuel toks) as [t|tok|site|] eqn:Ep; try discriminate.
  - destruct (sound token_kind kiki_ptable _ H2 fuel toks t (all_tokens_bounded toks) Ep) as (Hwf & Hy).
    destruct (a_file t) as [f|] eqn:Ef; [|discriminate]. cbn in Hp. injection Hp as <-.
    pose proof (tree_unparse _ _ Hwf) as Hs. cbn in Hs. rewrite <- Hy. exact (Hs f Ef).
  - destruct (unexpected_to_err tok src); discriminate.
Qed.

(* two token sequences the front end accepts with the same AST are the same up to positions *)
Corollary same_ast_same_tokens fuel1 fuel2 src1 src2 toks1 toks2 ast :
  front_parse fuel1 src1 toks1 = Ok ast -> front_parse fuel2 src2 toks2 = Ok ast ->
  map erase_tok toks1 = map erase_tok toks2.
Proof. intros H1 H2. rewrite (front_end_inverts_unparse _ _ _ _ H1), (front_end_inverts_unparse _ _ _ _ H2). reflexivity. Qed.
