(* Front/KikiValid.v — obligations re-checked on every run against the files
   regenerated from the source:
     * the rules read from kiki/src/parser.kiki are the grammar of record;
     * the reduce functions of kiki/src/parser.rs have the shapes of those rules;
     * the ACTION/GOTO tables of parser.rs, with the hinted annotation, pass the
       validator — hence (LR/ValidateProofs.v) the front-end driver is safe,
       sound and complete for the grammar of record, for every token sequence. *)
From Coq Require Import List Arith Bool Lia.
From Kiki Require Import Base.Ord Base.Chars Data LR.Driver LR.Grammar LR.Inv LR.Validate LR.Term LR.ValidateProofs
  Front.KikiGrammar Front.Parse.
From Kiki Require Gen.KikiTables Gen.KikiAnn.
Import ListNotations.
Open Scope nat_scope.

Definition psym_list_eqb (a b : list psym) : bool :=
  Nat.eqb (length a) (length b) && forallb (fun '(x, y) => psym_eqb x y) (combine a b).

Definition prule_eqb (a b : prule) : bool :=
  Nat.eqb (pr_lhs a) (pr_lhs b) && psym_list_eqb (pr_rhs a) (pr_rhs b)
  && Nat.eqb (length (pr_used a)) (length (pr_used b))
  && forallb (fun '(x, y) => Bool.eqb x y) (combine (pr_used a) (pr_used b)).

Definition rules_eqb (a b : list prule) : bool :=
  Nat.eqb (length a) (length b) && forallb (fun '(x, y) => prule_eqb x y) (combine a b).

(* parser.kiki declares exactly the published grammar *)
Theorem parser_kiki_is_grammar_of_record : rules_eqb Gen.KikiTables.src_rules kiki_grammar = true.
Proof. vm_compute. reflexivity. Qed.

Theorem parser_kiki_names :
  Gen.KikiTables.src_terminals = Gen.KikiTables.rs_terminals /\
  Gen.KikiTables.src_nonterminals = Gen.KikiTables.rs_nonterminals /\
  Gen.KikiTables.src_start_nt = Gen.KikiTables.rs_start_nt.
Proof. vm_compute. repeat split. Qed.

(* every reduce function of parser.rs pops and checks exactly what its rule says *)
Definition shape_ok (ru : prule) (sh : nat * list (option psym)) : bool :=
  Nat.eqb (pr_lhs ru) (fst sh)
  && Nat.eqb (length (pr_rhs ru)) (length (snd sh))
  && forallb (fun '((x, u), o) => match o with
                                  | Some y => u && psym_eqb x y
                                  | None => negb u
                                  end) (combine (combine (pr_rhs ru) (pr_used ru)) (snd sh)).

Theorem parser_rs_reduce_shapes :
  Nat.eqb (length kiki_grammar) (length Gen.KikiTables.rs_shapes)
  && forallb (fun '(ru, sh) => shape_ok ru sh) (combine kiki_grammar Gen.KikiTables.rs_shapes) = true.
Proof. vm_compute. reflexivity. Qed.

Theorem kiki_tables_valid : validate kiki_ptable Gen.KikiAnn.kiki_ann Gen.KikiAnn.kiki_ft = true.
Proof. vm_compute. reflexivity. Qed.

Theorem kiki_tables_terminate : term_check kiki_ptable Gen.KikiAnn.kiki_ann Gen.KikiAnn.kiki_K Gen.KikiAnn.kiki_phi = true.
Proof. vm_compute. reflexivity. Qed.

Lemma token_kind_bound : forall t, token_kind t < pt_nterm kiki_ptable.
Proof. intros t. change (pt_nterm kiki_ptable) with 17. destruct t; cbn; lia. Qed.

Lemma all_tokens_bounded (w : list token) : Forall (fun p => token_kind p < pt_nterm kiki_ptable) w.
Proof. apply Forall_forall. intros t _. apply token_kind_bound. Qed.
