(* Front/TypeSource.v — C13 from the source text to the AST: for every terminal of a file the
   front end accepts, the payload type stored in the AST stands for a contiguous segment of the
   token sequence of the source — the tokens the user wrote after the colon — and it is a
   well-formed type expression (ty_ok), so that type_to_string of it reads back as exactly those
   tokens (Ast/TypeText.v). *)
From Coq Require Import List Arith Lia Bool.
From Kiki Require Import Base.Ord Base.Chars Data LR.Driver LR.Grammar Front.KikiGrammar Front.Cst2Ast Front.Parse
  Front.CstTotal Ast.Validate Ast.TypeText Front.TypeTokens.
Import ListNotations.
Open Scope nat_scope.

Definition idents_ok (ys : list token) : Prop := forall i, In (TIdent i) ys -> name_ok (id_name i).

Definition seg_of (ys : list token) (ty : type) : Prop :=
  (exists pre seg post, ys = pre ++ seg ++ post /\ map tytok_of seg = ty_tokens ty) /\ (idents_ok ys -> ty_ok ty).

Lemma idents_ok_app a b : idents_ok (a ++ b) -> idents_ok a /\ idents_ok b.
Proof. intros H. split; intros i Hi; apply H, in_or_app; auto. Qed.

Lemma seg_of_ext a ys b ty : seg_of ys ty -> seg_of (a ++ ys ++ b) ty.
Proof.
  intros ((pre & seg & post & -> & Hm) & Hok). split.
  - exists (a ++ pre), seg, (post ++ b). split; [|exact Hm]. rewrite <- !app_assoc. reflexivity.
  - intros H. apply Hok. apply idents_ok_app in H as (_ & H). apply idents_ok_app in H as (H & _). exact H.
Qed.

Definition item_ok (it : file_item) (ys : list token) : Prop :=
  match it with
  | ITerminal d => forall tv, In tv (td_variants d) -> seg_of ys (tv_type tv)
  | _ => True
  end.

Lemma item_ok_ext a ys b it : item_ok it ys -> item_ok it (a ++ ys ++ b).
Proof. destruct it; cbn; auto. intros H tv Htv. apply seg_of_ext, H, Htv. Qed.

Definition conv_s (x : psym) (t : ttree) : Prop :=
  conv_y x t /\
  match x with
  | PT 1 => forall i, a_ident t = Some i -> In (TIdent i) (yield t)
  | PN 19 => forall p, a_path t = Some p -> forall i, In i p -> In (TIdent i) (yield t)
  | PN 18 => forall ty, a_type t = Some ty -> idents_ok (yield t) -> ty_ok ty
  | PN 20 => forall ty, a_type (Node 32 [t]) = Some ty -> idents_ok (yield t) -> ty_ok ty
  | PN 21 => forall c x y ty, a_type (Node 32 [Node 35 [c; x; t; y]]) = Some ty -> idents_ok (yield t) ->
                              exists cp args, a_path c = Some cp /\ ty = TyComplex cp args /\ Forall ty_ok args
  | PN 17 => forall tv, a_tenum_variant t = Some tv -> seg_of (yield t) (tv_type tv)
  | PN 16 => forall vs, a_tenum_variants t = Some vs -> forall tv, In tv vs -> seg_of (yield t) (tv_type tv)
  | PN 5 => forall it, a_item (Node 6 [t]) = Some it -> item_ok it (yield t)
  | PN 2 => forall it, a_item t = Some it -> item_ok it (yield t)
  | PN 1 => forall its, a_items t = Some its -> forall it, In it its -> item_ok it (yield t)
  | PN 0 => forall f, a_file t = Some f -> forall it, In it f -> item_ok it (yield t)
  | _ => True
  end.

Lemma leaf_s p : conv_s (PT (token_kind p)) (Leaf p).
Proof.
  split; [apply leaf_y|]. destruct p; cbn; try exact I. intros i0 H. injection H as <-. left. reflexivity.
Qed.

Lemma Forall2_fst xs ts : Forall2 conv_s xs ts -> Forall2 conv_y xs ts.
Proof. induction 1 as [|x t xs ts (H & _) _ IH]; constructor; assumption. Qed.

Lemma node_s r ru ch : nth_error kiki_grammar r = Some ru -> Forall2 conv_s (pr_rhs ru) ch -> conv_s (PN (pr_lhs ru)) (Node r ch).
Proof.
  intros Hr Hch. split; [apply node_y; [exact Hr|apply Forall2_fst, Hch]|].
  do 42 (try (destruct r as [|r]; [cbn in Hr; injection Hr as <-; cbn [pr_rhs pr_lhs mk map fst u s_] in Hch |- *; unfold_syms; inv_f2|])).
  all: try (exfalso; cbn in Hr; destruct r; discriminate).
  all: unfold_syms; cbv beta iota delta [conv_s] in *.
  all: repeat match goal with H : _ /\ _ |- _ => destruct H as (? & ?) end.
  all: cbv beta iota delta [conv_y] in *.
  all: try exact I.
  all: rewrite ?yield_node; cbn [flat_map]; rewrite ?app_nil_r.
  - (* 0: File -> OptItems *)
    intros f HH. cbn [a_file] in HH. match goal with Hi : forall its, a_items _ = Some its -> _ |- _ => exact (Hi f HH) end.
  - (* 1: OptItems -> eps *)
    intros its HH. cbn in HH. injection HH as <-. intros it [].
  - (* 2: OptItems -> OptItems FileItem *)
    intros its HH it Hin. cbn [a_items] in HH.
    match goal with Hl : forall its, a_items ?l = Some its -> _ |- _ => destruct (a_items l) as [ls|] eqn:El; [|discriminate]; specialize (Hl _ eq_refl) end.
    cbn [obind] in HH.
    match goal with Hi : forall it, a_item ?x = Some it -> _ |- _ => destruct (a_item x) as [i'|] eqn:Ei; [|discriminate]; specialize (Hi _ eq_refl) end.
    cbn in HH. injection HH as <-. apply in_app_or in Hin as [Hin|[<-|[]]].
    + match goal with Hl : forall it, In it ls -> _ |- _ => pose proof (Hl it Hin) as Hk end.
      exact (item_ok_ext [] _ _ it Hk).
    + match goal with Hk : item_ok ?i (yield ?x) |- item_ok ?i (?a ++ yield ?x) => rewrite <- (app_nil_r (yield x)); apply (item_ok_ext a _ [] i Hk) end.
  - (* 3: start *) intros it HH. cbn [a_item] in HH. destruct (a_ident _); cbn in HH; [injection HH as <-; exact I|discriminate].
  - (* 4: struct *)
    intros it HH. cbn [a_item] in HH. match goal with y : ttree |- _ => destruct y as [|r0 ch0]; try discriminate end.
    repeat (match type of HH with context [match ?e with _ => _ end] => destruct e; try discriminate end).
    unfold obind in HH. repeat (match type of HH with context [match ?e with _ => _ end] => destruct e; try discriminate end).
    injection HH as <-. exact I.
  - (* 5: enum *)
    intros it HH. cbn [a_item] in HH. match goal with y : ttree |- _ => destruct y as [|r0 ch0]; try discriminate end.
    repeat (match type of HH with context [match ?e with _ => _ end] => destruct e; try discriminate end).
    unfold obind in HH. repeat (match type of HH with context [match ?e with _ => _ end] => destruct e; try discriminate end).
    injection HH as <-. exact I.
  - (* 6: terminal enum *)
    intros it HH. match goal with Ht : forall it, a_item (Node 6 [_]) = Some it -> _ |- _ => exact (Ht it HH) end.
  - (* 9: TerminalEnum -> attrs terminal Ident { variants } *)
    intros it HH. cbn [a_item] in HH.
    destruct (a_attrs _) as [a|]; [|discriminate]. cbn [obind] in HH. destruct (a_ident _) as [n'|]; [|discriminate]. cbn [obind] in HH.
    match goal with Hv : forall vs, a_tenum_variants ?v = Some vs -> _ |- _ => destruct (a_tenum_variants v) as [vs'|] eqn:Ev; [|discriminate]; specialize (Hv _ eq_refl) end.
    cbn in HH. injection HH as <-. cbn [item_ok td_variants]. intros tv Htv.
    match goal with Hv : forall tv, In tv vs' -> seg_of (yield ?v) _ |- seg_of (?a ++ ?b ++ ?c ++ ?d ++ yield ?v ++ ?e) _ =>
      replace (a ++ b ++ c ++ d ++ yield v ++ e) with ((a ++ b ++ c ++ d) ++ yield v ++ e) by (rewrite <- !app_assoc; reflexivity);
      apply seg_of_ext, Hv, Htv end.
  - (* 27 *) intros vs HH. cbn in HH. injection HH as <-. intros tv [].
  - (* 28 *)
    intros vs HH tv Hin. cbn [a_tenum_variants] in HH.
    match goal with Hl : forall vs, a_tenum_variants ?l = Some vs -> _ |- _ => destruct (a_tenum_variants l) as [ls|] eqn:El; [|discriminate]; specialize (Hl _ eq_refl) end.
    cbn [obind] in HH.
    match goal with Hi : forall tv, a_tenum_variant ?x = Some tv -> _ |- _ => destruct (a_tenum_variant x) as [v'|] eqn:Ei; [|discriminate]; specialize (Hi _ eq_refl) end.
    cbn in HH. injection HH as <-. apply in_app_or in Hin as [Hin|[<-|[]]].
    + match goal with Hl : forall tv, In tv ls -> _ |- _ => pose proof (Hl tv Hin) as Hk end.
      exact (seg_of_ext [] _ _ _ Hk).
    + match goal with Hk : seg_of (yield ?x) ?ty |- seg_of (?a ++ yield ?x) ?ty => rewrite <- (app_nil_r (yield x)); apply (seg_of_ext a _ [] _ Hk) end.
  - (* 29: $T : Type *)
    intros tv HH. cbn [a_tenum_variant] in HH. destruct (a_tident _) as [n'|]; [|discriminate]. cbn [obind] in HH.
    match goal with Hy : forall ty, a_type ?t = Some ty -> map _ _ = _, Hk : forall ty, a_type ?t = Some ty -> idents_ok _ -> _ |- _ =>
      destruct (a_type t) as [ty'|] eqn:Et; [|discriminate]; specialize (Hy _ eq_refl); specialize (Hk _ eq_refl) end.
    cbn in HH. injection HH as <-. cbn [tv_type]. split.
    + match goal with |- exists pre seg post, ?a ++ ?b ++ yield ?t = _ /\ _ => exists (a ++ b), (yield t), [] end.
      split; [rewrite app_nil_r, <- app_assoc; reflexivity|assumption].
    + intros Hid. match goal with Hk : idents_ok _ -> ty_ok ty' |- _ => apply Hk end.
      apply idents_ok_app in Hid as (_ & Hid). apply idents_ok_app in Hid as (_ & Hid). exact Hid.
  - (* 30 *) intros ty HH _. cbn in HH. repeat (match type of HH with context [match ?e with _ => _ end] => destruct e; try discriminate end). injection HH as <-. constructor.
  - (* 31 *)
    intros ty HH Hid. cbn [a_type] in HH.
    match goal with Hp : forall p, a_path ?t = Some p -> forall i, _ |- _ => destruct (a_path t) as [p|] eqn:E; [|cbn in HH; discriminate]; specialize (Hp _ eq_refl) end.
    match goal with Hp : forall q, Some p = Some q -> _ /\ _ |- _ => destruct (Hp _ eq_refl) as (Hne & _) end.
    cbn in HH. injection HH as <-. apply ok_path; [exact Hne|]. apply Forall_forall. intros n Hn. apply in_map_iff in Hn as (i & <- & Hi). apply Hid. auto.
  - (* 32 *) intros ty HH Hid. match goal with Hk : forall ty, a_type (Node 32 [_]) = Some ty -> _ -> ty_ok ty |- _ => exact (Hk ty HH Hid) end.
  - (* 33 *)
    intros p HH i Hin. cbn [a_path] in HH.
    match goal with Hi : forall i, a_ident ?t = Some i -> In _ _ |- _ => destruct (a_ident t) as [i0|] eqn:E; [|discriminate]; specialize (Hi _ eq_refl) end.
    cbn in HH. injection HH as <-. destruct Hin as [<-|[]]. assumption.
  - (* 34 *)
    intros p HH i Hin. cbn [a_path] in HH.
    match goal with Hp : forall p, a_path ?l = Some p -> forall i, _ |- _ => destruct (a_path l) as [ls|] eqn:El; [|discriminate]; specialize (Hp _ eq_refl) end.
    cbn [obind] in HH.
    match goal with Hi : forall i, a_ident ?t = Some i -> In _ _ |- _ => destruct (a_ident t) as [i0|] eqn:Ei; [|discriminate]; specialize (Hi _ eq_refl) end.
    cbn in HH. injection HH as <-. apply in_app_or in Hin as [Hin|[<-|[]]]; apply in_or_app; [left; auto|right; apply in_or_app; right; assumption].
  - (* 35 *)
    intros ty HH Hid.
    apply idents_ok_app in Hid as (Hid1 & Hid). apply idents_ok_app in Hid as (_ & Hid). apply idents_ok_app in Hid as (Hid2 & _).
    match goal with Ha : forall c x y ty, _ -> idents_ok _ -> _ |- _ => destruct (Ha _ _ _ ty HH Hid2) as (cp & args & Hc & -> & Hargs) end.
    match goal with Hp : forall p, a_path ?l = Some p -> forall i, _ |- _ => specialize (Hp _ Hc) end.
    match goal with Hp : forall p, a_path ?l = Some p -> _ /\ _ |- _ => destruct (Hp _ Hc) as (Hne & _) end.
    apply ok_complex; [exact Hne| |exact Hargs]. apply Forall_forall. intros n Hn. apply in_map_iff in Hn as (i & <- & Hi). apply Hid1. auto.
  - (* 36 *)
    intros cc xx yy ty HH Hid. cbn [a_type] in HH. destruct (a_path cc) as [cp|] eqn:Ec; [|discriminate]. cbn [obind] in HH.
    match goal with Ht : forall ty, a_type ?t = Some ty -> idents_ok _ -> _ |- _ => destruct (a_type t) as [x'|] eqn:Ex; [|discriminate]; specialize (Ht _ eq_refl Hid) end.
    cbn in HH. injection HH as <-. exists cp, [x']. split; [reflexivity|]. split; [reflexivity|]. constructor; [assumption|constructor].
  - (* 37 *)
    intros cc xx yy ty HH Hid.
    apply idents_ok_app in Hid as (Hid1 & Hid). apply idents_ok_app in Hid as (_ & Hid2).
    match goal with Ha : forall c x y ty, a_type (Node 32 [Node 35 [c; x; ?l; y]]) = Some ty -> idents_ok _ -> _ |- _ =>
      pose proof (Ha cc xx yy) as Hl end.
    cbn [a_type] in HH, Hl. destruct (a_path cc) as [cp|] eqn:Ec; [|discriminate]. cbn [obind] in HH, Hl.
    match type of Hl with forall ty, obind (?f ?y) _ = _ -> _ => destruct (f y) as [ls|] eqn:El; [|discriminate] end.
    cbn [obind] in HH, Hl.
    destruct (Hl _ eq_refl Hid1) as (cp0 & args & E1 & E2 & Hargs). injection E1 as <-. injection E2 as <-.
    match goal with Ht : forall ty, a_type ?t = Some ty -> idents_ok _ -> _ |- _ => destruct (a_type t) as [x'|] eqn:Ex; [|discriminate]; specialize (Ht _ eq_refl Hid2) end.
    cbn [obind] in HH. injection HH as <-.
    exists cp, (ls ++ [x']). split; [reflexivity|]. split; [reflexivity|]. apply Forall_app. split; [exact Hargs|constructor; [assumption|constructor]].
Qed.

Theorem type_source : forall x t, wf token_kind kiki_ptable x t -> conv_s x t.
Proof.
  apply (wf_mind token_kind kiki_ptable (fun x t => conv_s x t) (fun xs ts => Forall2 conv_s xs ts)).
  - apply leaf_s.
  - intros r ru ch Hr _ IH. apply node_s; assumption.
  - constructor.
  - intros x xs t ts _ Hx _ Hxs. constructor; assumption.
Qed.

(* ---------- from the source text ---------- *)
From Kiki Require Import Lex.Model Lex.IdentShape LR.Inv LR.Sound LR.ValidateProofs Front.KikiValid.
From Kiki Require Gen.KikiAnn.

Theorem front_end_types_are_the_source_tokens src toks fuel ast :
  tokenize src = Ok toks -> front_parse fuel src toks = Ok ast ->
  forall d tv, In (ITerminal d) ast -> In tv (td_variants d) ->
    (exists pre seg post, toks = pre ++ seg ++ post /\ map tytok_of seg = ty_tokens (tv_type tv)) /\
    lex_ty (type_to_string (tv_type tv)) = Some (ty_tokens (tv_type tv)).
Proof.
  intros Htok Hp d tv Hd Htv. unfold front_parse in Hp.
  pose proof (validate_Inv2 kiki_ptable Gen.KikiAnn.kiki_ann Gen.KikiAnn.kiki_ft kiki_tables_valid) as H2.
  destruct (parse token_kind kiki_ptable fuel toks) as [t|tok|site|] eqn:Ep; try discriminate.
  - destruct (sound token_kind kiki_ptable _ H2 fuel toks t (all_tokens_bounded toks) Ep) as (Hwf & Hy).
    destruct (a_file t) as [f|] eqn:Ef; [|discriminate]. cbn in Hp. injection Hp as <-.
    pose proof (type_source _ _ Hwf) as (_ & Hs). cbn in Hs. specialize (Hs f Ef (ITerminal d) Hd). cbn [item_ok] in Hs.
    destruct (Hs tv Htv) as (Hseg & Hok). rewrite Hy in Hseg, Hok. split; [exact Hseg|].
    apply type_text_roundtrip, Hok. intros i Hi. exact (tokenize_ident_shape src toks Htok i Hi).
  - destruct (unexpected_to_err tok src); discriminate.
Qed.
