(* DataProofs.v — the comparison functions of Data.v (Rust's derived Ord on
   Symbol, StateItem, State, Transition, ...) are lawful total orders. *)
From Coq Require Import List Arith Lia Bool.
From Kiki Require Import Base.Ord Base.OrdProofs Base.Chars Data.
Import ListNotations.

Lemma str_cmp_laws : OrdLaws str_cmp.
Proof. exact (lcmp_laws _ N_cmp_laws). Qed.

Lemma str_eqb_eq a b : str_eqb a b = true <-> a = b.
Proof.
  unfold str_eqb, is_eq. destruct (str_cmp a b) eqn:E.
  - apply (ol_eq _ str_cmp_laws) in E. tauto.
  - split; [discriminate|]. intros ->. rewrite (ol_refl _ str_cmp_laws) in E. discriminate.
  - split; [discriminate|]. intros ->. rewrite (ol_refl _ str_cmp_laws) in E. discriminate.
Qed.

Lemma str_eqb_refl a : str_eqb a a = true.
Proof. apply str_eqb_eq. reflexivity. Qed.

(* comparison of an `Option`-like type whose `Some` values come first *)
Definition ocmp_first {A} (c : cmp_t A) : cmp_t (option A) := fun a b =>
  match a, b with
  | Some x, Some y => c x y
  | Some _, None => Lt
  | None, Some _ => Gt
  | None, None => Eq
  end.

Lemma ocmp_first_laws {A} (c : cmp_t A) : OrdLaws c -> OrdLaws (ocmp_first c).
Proof.
  intros L. split.
  - intros [x|] [y|]; cbn; try (split; [discriminate|congruence]); try tauto.
    rewrite (ol_eq c L). split; congruence.
  - intros [x|] [y|]; cbn; try reflexivity. apply (ol_sym c L).
  - intros [x|] [y|] [z|]; cbn; try congruence. apply (ol_trans c L).
Qed.

Lemma rule_index_cmp_laws : OrdLaws rule_index_cmp.
Proof. exact (ocmp_first_laws _ nat_cmp_laws). Qed.

Lemma lookahead_cmp_laws : OrdLaws lookahead_cmp.
Proof. exact (ocmp_first_laws _ str_cmp_laws). Qed.

Lemma symbol_cmp_laws : OrdLaws symbol_cmp.
Proof.
  split.
  - intros [x|x] [y|y]; cbn; try (split; [discriminate|congruence]);
      rewrite (ol_eq _ str_cmp_laws); split; congruence.
  - intros [x|x] [y|y]; cbn; try reflexivity; apply (ol_sym _ str_cmp_laws).
  - intros [x|x] [y|y] [z|z]; cbn; try congruence; apply (ol_trans _ str_cmp_laws).
Qed.

(* records compared field by field = a lexicographic pair order on the tuple of fields *)
Definition item_tuple (i : item) := (it_rule i, (it_la i, it_dot i)).

Lemma item_cmp_as_tuple a b :
  item_cmp a b = pcmp rule_index_cmp (pcmp lookahead_cmp nat_cmp) (item_tuple a) (item_tuple b).
Proof. reflexivity. Qed.

Lemma item_tuple_inj x y : item_tuple x = item_tuple y -> x = y.
Proof. destruct x, y; unfold item_tuple; cbn. intros H; injection H as -> -> ->; reflexivity. Qed.

Lemma item_cmp_laws : OrdLaws item_cmp.
Proof.
  exact (map_cmp_laws item_tuple _ item_tuple_inj
           (pcmp_laws _ _ rule_index_cmp_laws (pcmp_laws _ _ lookahead_cmp_laws nat_cmp_laws))).
Qed.

Lemma state_cmp_laws : OrdLaws state_cmp.
Proof. exact (lcmp_laws _ item_cmp_laws). Qed.

Definition transition_tuple (t : transition) := (tr_from t, (tr_to t, tr_symbol t)).

Lemma transition_tuple_inj x y : transition_tuple x = transition_tuple y -> x = y.
Proof. destruct x, y; unfold transition_tuple; cbn. intros H; injection H as -> -> ->; reflexivity. Qed.

Lemma transition_cmp_laws : OrdLaws transition_cmp.
Proof.
  exact (map_cmp_laws transition_tuple _ transition_tuple_inj
           (pcmp_laws _ _ nat_cmp_laws (pcmp_laws _ _ nat_cmp_laws symbol_cmp_laws))).
Qed.

Lemma item_eqb_eq a b : item_eqb a b = true <-> a = b.
Proof.
  unfold item_eqb, is_eq. destruct (item_cmp a b) eqn:E.
  - apply (ol_eq _ item_cmp_laws) in E. tauto.
  - split; [discriminate|]. intros ->. rewrite (ol_refl _ item_cmp_laws) in E. discriminate.
  - split; [discriminate|]. intros ->. rewrite (ol_refl _ item_cmp_laws) in E. discriminate.
Qed.

Lemma symbol_eqb_eq a b : symbol_eqb a b = true <-> a = b.
Proof.
  unfold symbol_eqb, is_eq. destruct (symbol_cmp a b) eqn:E.
  - apply (ol_eq _ symbol_cmp_laws) in E. tauto.
  - split; [discriminate|]. intros ->. rewrite (ol_refl _ symbol_cmp_laws) in E. discriminate.
  - split; [discriminate|]. intros ->. rewrite (ol_refl _ symbol_cmp_laws) in E. discriminate.
Qed.
