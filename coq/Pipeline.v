(* Pipeline.v — kiki::generate as a Gallina function, and the entry points the
   correspondence driver calls.  No proofs. *)
From Kiki Require Import Base.Ord Base.Chars Data Oset.Model Lex.Model LR.Driver
  Front.KikiGrammar Front.Cst2Ast Front.Parse Ast.Validate Build.Machine Build.Table
  Emit.Emit Emit.Hash Emit.Parser Canon.
From Kiki Require Gen.Template.
Open Scope nat_scope.

(* the two places where the crate iterates a hash collection *)
Record hash_order := {
  ho_transitions : list transition -> list transition;
  ho_table : table_ho
}.

Definition ho_id : hash_order :=
  {| ho_transitions := fun l => l;
     ho_table := {| ho_actions := fun l => l; ho_gotos := fun l => l |} |}.
Definition ho_rev : hash_order :=
  {| ho_transitions := @rev _;
     ho_table := {| ho_actions := @rev _; ho_gotos := @rev _ |} |}.

(* fuel for the loops of the pipeline, from the size of the input (see DESIGN.md §4) *)
Definition max_rhs (rules : list rule) : nat :=
  fold_right Nat.max 0 (map (fun r => fieldset_len (ru_fieldset r)) rules).

Definition fuels_for (ntokens : nat) (f : vfile) : fuels :=
  let rules := get_rules f in
  let nr := length rules in
  let nt := S (length (vt_variants (vf_tenum f))) in
  let nn := length (vf_nts f) in
  let items := S nr * S (max_rhs rules) * nt in
  {| fu_first := nn * nt + 2;
     fu_closure := items * (nr * nt + 1) + items + 2;
     fu_build := N.to_nat 200000;
     fu_unique := nn + nt + 16;
     fu_parse := 0 |}.

Definition front_fuel (ntokens : nat) : nat := 64 * (ntokens + 2).

Record gen_out := { go_file : vfile; go_machine : machine; go_table : table }.

Definition front_end (src : str) : res vfile :=
  do tokens <- tokenize src;
  do ast <- front_parse (front_fuel (length tokens)) src tokens;
  validate_ast ast.

Definition middle (ho : hash_order) (v : vfile) : res (machine * res table) :=
  let fu := fuels_for 0 v in
  do m <- validated_ast_to_machine (ho_transitions ho) fu v;
  Ok (m, machine_to_table (ho_table ho) m v).

Definition generate_full (ho : hash_order) (digest : str) (src : str) : res (gen_out * str) :=
  do v <- front_end src;
  do '(m, rt) <- middle ho v;
  do t <- rt;
  do text <- table_to_rust (fu_unique (fuels_for 0 v)) Gen.Template.file_template Gen.Template.template_consts
               t v digest;
  Ok ({| go_file := v; go_machine := m; go_table := t |}, text).

(* kiki::generate; `digest` stands for sha256::digest(src) *)
Definition generate_model (ho : hash_order) (digest : str) (src : str) : res str :=
  do '(_, text) <- generate_full ho digest src; Ok text.

(* ---------- entry points for the correspondence driver (canonical text lines) ---------- *)

Definition entry_gen (rev_order : bool) (digest src : str) : str :=
  render (c_res CS (generate_model (if rev_order then ho_rev else ho_id) digest src)).

Definition entry_tok (src : str) : str :=
  render (c_res (fun l => CL (map c_token l)) (tokenize src)).

Definition entry_hash (text : str) : str :=
  render (match get_grammar_hash text with Some h => CT "Some" [CS h] | None => CT "None" [] end).

Definition entry_mt (rev_order : bool) (src : str) : str :=
  render (c_res (fun '(v, (m, rt)) => CT "MT" [c_vfile v; c_machine m; c_res c_table rt])
                (do v <- front_end src;
                 do mt <- middle (if rev_order then ho_rev else ho_id) v;
                 Ok (v, mt))).

(* the FIRST map alone (hook verif_hooks::first_sets): name, terminals in set order, nullable *)
Definition entry_fm (src : str) : str :=
  render (c_res (fun fm : first_map =>
                   CL (map (fun '(n, fs) => CT "F" [CS n; CL (map CS (fs_terminals fs)); CN (if fs_eps fs then 1 else 0)%N]) fm))
                (do v <- front_end src;
                 do cx <- make_context (fuels_for 0 v) v;
                 Ok (cx_first cx))).

(* run the emitted parser of `src` on token-kind sequences; payload = position *)
Definition run_fuel (rules : nat) (n : nat) : nat := (n + 2) * (16 * rules + 32).

Definition outcome_line (v : vfile) (pt : ptable) (w : list nat) : str :=
  let toks := map (fun '(i, k) => (k, N.of_nat i)) (enumerate w) in
  let fuel := run_fuel (length (pt_rules pt)) (length w) in
  let rules := get_rules v in
  let body := match parse (@fst nat N) pt fuel toks with
              | OAccept t => s2l "Ok(" ++ tree_debug v rules t ++ s2l ")"
              | OReject (Some p) => s2l "Err(Some(" ++ token_debug v p ++ s2l "))"
              | OReject None => s2l "Err(None)"
              | OPanic _ => s2l "panic"
              | OOutOfFuel => s2l "timeout"
              end in
  body ++ s2l " pulls=" ++ dec_nat (pulls (@fst nat N) pt fuel toks).

Definition entry_run (src : str) (inputs : list (list nat)) : list str :=
  match generate_full ho_id [] src with
  | Ok (out, _) =>
      match ptable_of (go_file out) (go_table out) with
      | Some pt => map (outcome_line (go_file out) pt) inputs
      | None => [s2l "no-ptable"]
      end
  | r => [render (c_res (fun _ => CT "Unit" []) r)]
  end.
