(* PosMapProofs.v — C16, the exact position map.  Two source texts whose token sequences differ
   only in their positions (a re-layout): the stored positions of the first map to those of the
   second by a function pf (it exists: the stored positions of a tokenised text are strictly
   increasing).  Then `generate` of the second text is `generate` of the first with pf applied
   to every position an error carries — for EVERY such pf, so an error carries nothing but stored
   positions of tokens — and a syntax error is at the same token, with that token's own span. *)
From Coq Require Import List Arith NArith Lia Bool.
From Kiki Require Import Base.Ord Base.Chars Data DataProofs Lex.Model Lex.NoPanic Lex.Spans Lex.Spec LR.Driver LR.Grammar LR.Inv LR.Sound LR.Validate LR.ValidateProofs LR.Payload Front.Cst2Ast Front.Parse Front.KikiValid
  Ast.Validate Ast.ValidateProofs Build.Machine Build.Table Emit.Emit Emit.Positions Ast.Positions Front.Positions
  Build.NoErr Emit.NoErr Emit.PosMap Ast.PosMap Front.PosMap Pipeline PositionsProofs.
From Kiki Require Gen.Template Gen.KikiAnn.
Import ListNotations.
Open Scope N_scope.

(* the position a token stores *)
Definition spos (t : token) : N :=
  match t with
  | TUnderscore p => p
  | TIdent i => id_pos i
  | TTerminalIdent i => ti_dpos i
  | TOuterAttribute a => at_pos a
  | TStartKw p | TStructKw p | TEnumKw p | TTerminalKw p
  | TColon p | TDoubleColon p | TComma p | TLParen p | TRParen p | TLCurly p | TRCurly p | TLAngle p | TRAngle p => p
  end.

(* ---------- the stored positions of a tokenised text increase strictly ---------- *)

Fixpoint incr (p : N) (toks : list token) : Prop :=
  match toks with
  | [] => True
  | t :: r => p <= tok_pos t /\ tok_pos t <= spos t /\ spos t < tok_pos t + blen (lexeme t) /\ incr (tok_pos t + blen (lexeme t)) r
  end.

Lemma incr_weaken toks p p' : p' <= p -> incr p toks -> incr p' toks.
Proof. destruct toks as [|t r]; [auto|]. cbn [incr]. intros Hle (H1 & H2). split; [lia|exact H2]. Qed.

Lemma blen_cons_pos (c : char) (s : str) : 1 <= blen (c :: s).
Proof. cbn [blen]. pose proof (len_utf8_pos c). lia. Qed.

Theorem spec_incr : forall f p s toks, spec f p s = Ok toks -> incr p toks.
Proof.
  induction f as [|f IH]; intros p s toks H; [discriminate|]. destruct s as [|c r]; [injection H as <-; exact I|]. cbn [spec] in H.
  assert (Hrec : forall q rest toks', p <= q -> spec f q rest = Ok toks' -> incr p toks').
  { intros q rest toks' Hle Hs. apply (incr_weaken toks' q p Hle). apply (IH _ _ _ Hs). }
  assert (Htok : forall (tok : token) rest toks', tok_pos tok = p -> tok_pos tok <= spos tok -> spos tok < tok_pos tok + blen (lexeme tok) ->
                   spec f (p + blen (lexeme tok)) rest = Ok toks' -> toks = tok :: toks' -> incr p toks).
  { intros tok rest toks' Hp H1 H2 Hs ->. cbn [incr]. rewrite Hp in *. repeat split; try lia. apply (IH _ _ _ Hs). }
  destruct (is_whitespace c).
  { refine (Hrec _ r toks _ H). lia. }
  destruct (c =? ch "/") eqn:Esl.
  { destruct r as [|c2 r2]; [discriminate|]. destruct (c2 =? ch "/") eqn:E2; [|discriminate].
    destruct (span (fun x => negb (x =? 10)) r2) as [body rest] eqn:Es.
    destruct rest as [|nl rest']; [injection H as <-; exact I|]. refine (Hrec _ rest' toks _ H). lia. }
  destruct (ident_start c).
  { destruct (span ident_cont r) as [more rest] eqn:Es.
    apply rmap_cons_Forall in H as (toks' & Hs & Ht). pose proof (blen_cons_pos c more) as Hb.
    destruct (reserved_word (c :: more)) as [mk|] eqn:Er.
    - destruct (reserved_word_lexeme _ _ p Er) as (Hl & Hp).
      assert (Hsp : spos (mk p) = p).
      { clear -Er. unfold reserved_word in Er.
        repeat (match type of Er with (if ?b then _ else _) = _ => destruct b end); try discriminate; injection Er as <-; reflexivity. }
      apply (Htok (mk p) rest toks' Hp); [lia|rewrite Hsp, Hp, Hl; lia|rewrite Hl; exact Hs|exact Ht].
    - apply (Htok (TIdent {| id_name := c :: more; id_pos := p |}) rest toks' eq_refl); cbn [tok_pos spos lexeme id_pos id_name]; [lia|lia|exact Hs|exact Ht]. }
  destruct (c =? ch "$") eqn:Edl.
  { destruct r as [|c2 r2]; [discriminate|]. destruct (ident_start c2); [|discriminate].
    destruct (span ident_cont r2) as [more rest] eqn:Es.
    destruct (reserved_word (c2 :: more)); [discriminate|].
    apply rmap_cons_Forall in H as (toks' & Hs & Ht). pose proof (blen_cons_pos c2 more) as Hb.
    assert (Hbl : blen (ch "$" :: c2 :: more) = 1 + blen (c2 :: more)) by reflexivity.
    apply (Htok (TTerminalIdent {| ti_name := c2 :: more; ti_dpos := p + 1 |}) rest toks'); cbn [tok_pos spos lexeme ti_dpos ti_name]; try lia; [|exact Ht].
    rewrite Hbl, N.add_assoc. exact Hs. }
  destruct (c =? ch ":") eqn:Ecl.
  { destruct r as [|c2 r2].
    - injection H as <-. cbn [incr tok_pos spos lexeme]. change (blen (s2l ":")) with 1. repeat split; lia.
    - destruct (c2 =? ch ":") eqn:E2.
      + apply rmap_cons_Forall in H as (toks' & Hs & Ht).
        apply (Htok (TDoubleColon p) r2 toks' eq_refl); cbn [tok_pos spos lexeme]; change (blen (s2l "::")) with 2; [lia|lia|exact Hs|exact Ht].
      + apply rmap_cons_Forall in H as (toks' & Hs & Ht).
        apply (Htok (TColon p) (c2 :: r2) toks' eq_refl); cbn [tok_pos spos lexeme]; change (blen (s2l ":")) with 1; [lia|lia|exact Hs|exact Ht]. }
  destruct (c =? ch "#") eqn:Epd.
  { destruct r as [|c2 r2]; [discriminate|]. destruct (c2 =? ch "[") eqn:E2; [|discriminate].
    destruct (attr_scan r2 1 (p + 2) [ch "["]) as [|q|inner rest] eqn:Ea; try discriminate.
    destruct (check_brackets _ []) as [[]| | |]; try discriminate.
    apply rmap_cons_Forall in H as (toks' & Hs & Ht).
    assert (Hbl : blen (ch "#" :: inner) = 1 + blen inner) by reflexivity.
    apply (Htok (TOuterAttribute {| at_src := ch "#" :: inner; at_pos := p |}) rest toks' eq_refl); cbn [tok_pos spos lexeme at_pos at_src]; try lia; [|exact Ht].
    rewrite Hbl, N.add_assoc. exact Hs. }
  destruct (single_char_punctuation c) as [mk|] eqn:Ep; [|discriminate].
  apply rmap_cons_Forall in H as (toks' & Hs & Ht).
  destruct (single_char_lexeme c mk p Ep) as (Hl & Hp).
  assert (Hsp : spos (mk p) = p).
  { clear -Ep. unfold single_char_punctuation in Ep.
    repeat (match type of Ep with (if ?b then _ else _) = _ => destruct b end); try discriminate; injection Ep as <-; reflexivity. }
  pose proof (len_utf8_pos c) as Hc.
  apply (Htok (mk p) r toks' Hp); [lia|rewrite Hsp, Hp, Hl, blen_one; lia|rewrite Hl, blen_one; exact Hs|exact Ht].
Qed.

Lemma incr_lower toks : forall p t, incr p toks -> In t toks -> p <= spos t.
Proof.
  induction toks as [|t0 r IH]; intros p t H Hin; [destruct Hin|]. cbn [incr] in H. destruct H as (H1 & H2 & H3 & H4).
  destruct Hin as [<-|Hin]; [lia|]. pose proof (IH _ t H4 Hin). lia.
Qed.

Lemma incr_nodup toks : forall p, incr p toks -> NoDup (map spos toks).
Proof.
  induction toks as [|t r IH]; intros p H; [constructor|]. cbn [incr] in H. destruct H as (H1 & H2 & H3 & H4).
  cbn [map]. constructor; [|apply (IH _ H4)]. intros Hin. apply in_map_iff in Hin as (t' & E & Hin).
  pose proof (incr_lower r _ t' H4 Hin). lia.
Qed.

Theorem stored_positions_distinct src toks : tokenize src = Ok toks -> NoDup (map spos toks).
Proof. rewrite tokenize_is_spec. intros H. apply (incr_nodup toks 0). apply (spec_incr _ _ _ _ H). Qed.

(* ---------- the position map between two layouts of the same tokens exists ---------- *)

Fixpoint look (al : list (N * N)) (p : N) : N :=
  match al with [] => 0 | (k, v) :: r => if k =? p then v else look r p end.

Lemma look_app_notin al al' p : ~ In p (map fst al) -> look (al ++ al') p = look al' p.
Proof.
  induction al as [|[k v] al IH]; [reflexivity|]. cbn [map fst In app look]. intros H.
  destruct (k =? p) eqn:E; [apply N.eqb_eq in E; exfalso; apply H; left; exact E|]. apply IH. intros Hin. apply H. right. exact Hin.
Qed.

Lemma pm_tok_of_erase pf t1 t2 : erase_tok t1 = erase_tok t2 -> pf (spos t1) = spos t2 -> pm_tok pf t1 = t2.
Proof.
  destruct t1 as [p|[n p]|[n p]|[n p]|p|p|p|p|p|p|p|p|p|p|p|p|p], t2 as [q|[m q]|[m q]|[m q]|q|q|q|q|q|q|q|q|q|q|q|q|q];
    cbn; intros H E; try discriminate; try (injection H as ->); subst; reflexivity.
Qed.

Lemma position_map_exists_gen : forall l1 l2 al, map erase_tok l1 = map erase_tok l2 -> NoDup (map spos l1) ->
  (forall t, In t l1 -> ~ In (spos t) (map fst al)) ->
  map (pm_tok (look (al ++ combine (map spos l1) (map spos l2)))) l1 = l2.
Proof.
  induction l1 as [|t1 l1 IH]; intros l2 al He Hnd Hal; destruct l2 as [|t2 l2]; try discriminate; [reflexivity|].
  cbn [map] in He. injection He as Ht He. cbn [map combine]. inversion Hnd as [|x xs Hnotin Hnd']; subst. f_equal.
  - apply (pm_tok_of_erase _ t1 t2 Ht). rewrite look_app_notin; [|apply Hal; left; reflexivity]. cbn [look]. rewrite N.eqb_refl. reflexivity.
  - replace (al ++ (spos t1, spos t2) :: combine (map spos l1) (map spos l2)) with ((al ++ [(spos t1, spos t2)]) ++ combine (map spos l1) (map spos l2))
      by (rewrite <- app_assoc; reflexivity).
    apply IH; [exact He|exact Hnd'|]. intros t Hin. rewrite map_app. cbn [map fst]. intros Hk. apply in_app_or in Hk as [Hk|[Hk|[]]].
    + apply (Hal t); [right; exact Hin|exact Hk].
    + apply Hnotin. rewrite Hk. apply in_map. exact Hin.
Qed.

Theorem position_map_exists src1 src2 toks1 toks2 : tokenize src1 = Ok toks1 -> tokenize src2 = Ok toks2 ->
  map erase_tok toks1 = map erase_tok toks2 -> exists pf, toks2 = map (pm_tok pf) toks1.
Proof.
  intros H1 _ He. exists (look ([] ++ combine (map spos toks1) (map spos toks2))). symmetry.
  apply position_map_exists_gen; [exact He|exact (stored_positions_distinct src1 toks1 H1)|intros t _ []].
Qed.

(* ---------- everything after the parser commutes with the map ---------- *)
Open Scope nat_scope.

Section Map.
  Variable pf : N -> N.

  Lemma fuels_for_pm n v : fuels_for n (pm_v pf v) = fuels_for n v.
  Proof. rewrite <- (fuels_for_erase n (pm_v pf v)), erase_pm_v. apply fuels_for_erase. Qed.

  Theorem back_pm ho digest ast : back ho digest (pm_ast pf ast) = rpm pf same (back ho digest ast).
  Proof.
    unfold back. apply (bind_rpm pf (pm_v pf) same _ _ _ _ (validate_ast_pm pf ast)). intros v.
    unfold middle. rewrite fuels_for_pm, validated_ast_to_machine_pm.
    destruct (validated_ast_to_machine (ho_transitions ho) (fuels_for 0 v) v) as [m|e| |] eqn:Em; cbn [bind rpm]; try reflexivity;
      [|exfalso; exact (validated_ast_to_machine_no_err _ _ _ _ Em)].
    apply (bind_rpm pf same same _ _ _ _ (machine_to_table_pm pf (ho_table ho) m v)). intros t. unfold same.
    rewrite table_to_rust_pm. destruct (table_to_rust _ _ _ t v digest) as [x|e|x|x] eqn:E; cbn [rpm]; try reflexivity.
    exfalso. exact (table_to_rust_no_err _ _ _ _ _ _ _ E).
  Qed.

  (* a syntax error: the span and the text of the offending token *)
  Lemma unexpected_err_exact src toks t : tokenize src = Ok toks -> In t toks ->
    unexpected_to_err (Some t) src = Ok (EParse (tok_pos t) (lexeme t) (tok_pos t + blen (lexeme t))%N).
  Proof.
    intros Htok Hin. destruct (tokenize_spans src toks Htok t Hin) as (pre & mid & post & Hsrc & Hs & Hl).
    destruct (tokens_are_where_they_say src toks Htok t Hin) as (pre' & post' & Hsrc' & Hp).
    pose proof (token_start_pos t _ Hs) as Hpos. rewrite Hp in Hpos.
    assert (Hpre : pre = pre' /\ mid ++ post = lexeme t ++ post').
    { apply blen_prefix_inj; [rewrite <- Hsrc, <- Hsrc'; reflexivity|exact Hpos]. }
    destruct Hpre as (-> & Hrest).
    assert (Hmid : mid = lexeme t) by (apply (blen_prefix_inj mid (lexeme t) post post' Hrest); rewrite <- Hl; apply content_len_lexeme).
    subst mid. unfold unexpected_to_err. rewrite Hs. cbn [bind]. rewrite Hl.
    rewrite (slice_app' src pre' (lexeme t) post _ _ Hsrc eq_refl eq_refl). cbn [unwrap bind]. rewrite Hp. reflexivity.
  Qed.

  Lemma lexeme_pm t : lexeme (pm_tok pf t) = lexeme t.
  Proof. destruct t; reflexivity. Qed.

  (* C16, the position map: for every pf that maps the stored positions of the first token list
     to those of the second *)
  Theorem positions_follow_the_tokens ho digest src1 src2 toks1 :
    tokenize src1 = Ok toks1 -> tokenize src2 = Ok (map (pm_tok pf) toks1) ->
    match parse token_kind kiki_ptable (front_fuel (length toks1)) toks1 with
    | OReject (Some t) =>
        In t toks1 /\
        generate_model ho digest src1 = Err (EParse (tok_pos t) (lexeme t) (tok_pos t + blen (lexeme t))%N) /\
        generate_model ho digest src2 =
          Err (EParse (tok_pos (pm_tok pf t)) (lexeme t) (tok_pos (pm_tok pf t) + blen (lexeme t))%N)
    | OReject None =>
        generate_model ho digest src1 = Err (EParse (blen src1) [] (blen src1)) /\
        generate_model ho digest src2 = Err (EParse (blen src2) [] (blen src2))
    | _ => generate_model ho digest src2 = rpm pf same (generate_model ho digest src1)
    end.
  Proof.
    intros H1 H2. rewrite !generate_model_unfold, H1, H2. cbn [bind]. rewrite map_length.
    set (fuel := front_fuel (length toks1)). unfold front_parse. rewrite (parse_pm pf fuel toks1).
    destruct (parse token_kind kiki_ptable fuel toks1) as [t1|[k1|]|s1|] eqn:E1; cbn [omap option_map].
    - rewrite (a_file_pm pf t1). destruct (a_file t1) as [ast1|]; cbn [option_map unwrap bind rpm]; [|reflexivity].
      apply back_pm.
    - pose proof (validate_Inv2 kiki_ptable Gen.KikiAnn.kiki_ann Gen.KikiAnn.kiki_ft kiki_tables_valid) as Hi2.
      destruct (reject_is_input_token token_kind kiki_ptable _ Hi2 fuel toks1 (Some k1) (all_tokens_bounded toks1) E1) as (c1 & r1 & Hw1 & Hk1).
      assert (Hin1 : In k1 toks1) by (rewrite Hw1; apply in_or_app; right; destruct r1; [discriminate|cbn in Hk1; injection Hk1 as ->; left; reflexivity]).
      split; [exact Hin1|].
      rewrite (unexpected_err_exact src1 toks1 k1 H1 Hin1).
      rewrite (unexpected_err_exact src2 _ (pm_tok pf k1) H2 (in_map _ _ _ Hin1)). cbn [bind]. rewrite lexeme_pm. split; reflexivity.
    - split; reflexivity.
    - reflexivity.
    - reflexivity.
  Qed.
End Map.

(* C16, both halves together: a re-layout has a position map, and the result follows it *)
Theorem relayout_moves_positions_with_their_tokens ho digest src1 src2 toks1 toks2 :
  tokenize src1 = Ok toks1 -> tokenize src2 = Ok toks2 -> map erase_tok toks1 = map erase_tok toks2 ->
  exists pf, toks2 = map (pm_tok pf) toks1 /\
    match parse token_kind kiki_ptable (front_fuel (length toks1)) toks1 with
    | OReject (Some t) =>
        In t toks1 /\
        generate_model ho digest src1 = Err (EParse (tok_pos t) (lexeme t) (tok_pos t + blen (lexeme t))%N) /\
        generate_model ho digest src2 =
          Err (EParse (tok_pos (pm_tok pf t)) (lexeme t) (tok_pos (pm_tok pf t) + blen (lexeme t))%N)
    | OReject None =>
        generate_model ho digest src1 = Err (EParse (blen src1) [] (blen src1)) /\
        generate_model ho digest src2 = Err (EParse (blen src2) [] (blen src2))
    | _ => generate_model ho digest src2 = rpm pf same (generate_model ho digest src1)
    end.
Proof.
  intros H1 H2 He. destruct (position_map_exists src1 src2 toks1 toks2 H1 H2 He) as (pf & Hpf). exists pf. split; [exact Hpf|].
  apply positions_follow_the_tokens; [exact H1|rewrite <- Hpf; exact H2].
Qed.

(* ---------- consequence: every position an error carries is the stored position of a token ---------- *)
Open Scope N_scope.

Definition err_positions (e : kiki_err) : list N :=
  match e with
  | ELex p _ => [p]
  | EParse s _ e => [s; e]
  | ENoStartSymbol | ENoTerminalEnum | ETableConflict _ => []
  | EMultipleStartSymbols l | EMultipleTerminalEnums l => l
  | ESymbolNotUppercase p | EFieldNotLowercase p | EUndefinedNonterminal _ p | EUndefinedTerminal _ p => [p]
  | ENameClash _ p q | EVariantNameClash _ p q | EVariantSeqClash _ p q => [p; q]
  end.

Lemma map_fix (g : N -> N) l : map g l = l -> Forall (fun p => g p = p) l.
Proof. induction l as [|x l IH]; cbn [map]; intros H; constructor; injection H as H1 H2; auto. Qed.

Lemma pm_err_fix pf e : pm_err pf e = e -> Forall (fun p => pf p = p) (err_positions e).
Proof.
  destruct e; cbn [pm_err err_positions]; intros H; try (injection H as H); repeat constructor; auto using map_fix.
Qed.

(* keep the stored positions of the given tokens, move every other number *)
Definition keep (toks : list token) (p : N) : N := if existsb (N.eqb p) (map spos toks) then p else p + 1.

Lemma keep_tok toks t : In t toks -> pm_tok (keep toks) t = t.
Proof.
  intros Hin. assert (H : keep toks (spos t) = spos t).
  { unfold keep. replace (existsb (N.eqb (spos t)) (map spos toks)) with true; [reflexivity|].
    symmetry. apply existsb_exists. exists (spos t). split; [apply in_map, Hin|apply N.eqb_refl]. }
  destruct t as [p|[n p]|[n p]|[n p]|p|p|p|p|p|p|p|p|p|p|p|p|p];
    cbn [pm_tok pm_ident pm_tident pm_attr spos id_pos ti_dpos at_pos id_name ti_name at_src] in *; unfold pm_ident, pm_tident, pm_attr; cbn [id_pos ti_dpos at_pos id_name ti_name at_src]; rewrite H; reflexivity.
Qed.

Lemma keep_fix toks p : keep toks p = p -> In p (map spos toks).
Proof.
  unfold keep. destruct (existsb (N.eqb p) (map spos toks)) eqn:E; [|lia]. intros _.
  apply existsb_exists in E as (q & Hq & Heq). apply N.eqb_eq in Heq. subst q. exact Hq.
Qed.

Theorem error_positions_are_token_positions ho digest src toks e :
  tokenize src = Ok toks -> generate_model ho digest src = Err e ->
  (forall s c x, e <> EParse s c x) ->
  Forall (fun p => exists t, In t toks /\ spos t = p) (err_positions e).
Proof.
  intros Ht He Hnp.
  assert (Hmap : map (pm_tok (keep toks)) toks = toks).
  { transitivity (map (fun t => t) toks); [|apply map_id]. apply map_ext_in. intros t Hin. apply keep_tok, Hin. }
  pose proof (positions_follow_the_tokens (keep toks) ho digest src src toks Ht) as H. rewrite Hmap in H. specialize (H Ht).
  destruct (parse token_kind kiki_ptable (front_fuel (length toks)) toks) as [t1|[k1|]|s1|] eqn:E1.
  - rewrite He in H. cbn [rpm] in H. injection H as H. symmetry in H. apply pm_err_fix in H.
    eapply Forall_impl; [|exact H]. intros p Hp. cbv beta in Hp. apply keep_fix in Hp. apply in_map_iff in Hp as (t & Hs & Hin). eauto.
  - destruct H as (_ & H & _). rewrite He in H. injection H as ->. exfalso. eapply Hnp. reflexivity.
  - destruct H as (H & _). rewrite He in H. injection H as ->. exfalso. eapply Hnp. reflexivity.
  - rewrite He in H. cbn [rpm] in H. injection H as H. symmetry in H. apply pm_err_fix in H.
    eapply Forall_impl; [|exact H]. intros p Hp. cbv beta in Hp. apply keep_fix in Hp. apply in_map_iff in Hp as (t & Hs & Hin). eauto.
  - rewrite He in H. cbn [rpm] in H. injection H as H. symmetry in H. apply pm_err_fix in H.
    eapply Forall_impl; [|exact H]. intros p Hp. cbv beta in Hp. apply keep_fix in Hp. apply in_map_iff in Hp as (t & Hs & Hin). eauto.
Qed.

(* ... and that token's text stands in the source at the byte offset it stores (one byte after the `$` for a terminal name) *)
Theorem error_positions_are_byte_offsets_of_tokens ho digest src toks e :
  tokenize src = Ok toks -> generate_model ho digest src = Err e ->
  (forall s c x, e <> EParse s c x) ->
  Forall (fun p => exists t pre post, In t toks /\ spos t = p /\ src = pre ++ lexeme t ++ post /\ tok_pos t = blen pre)
         (err_positions e).
Proof.
  intros Ht He Hnp. eapply Forall_impl; [|exact (error_positions_are_token_positions ho digest src toks e Ht He Hnp)].
  intros p (t & Hin & Hs). destruct (tokens_are_where_they_say src toks Ht t Hin) as (pre & post & Hsrc & Hp). eauto 8.
Qed.
