(* C11 — a table-conflict error pinpoints a real conflict in the real automaton.

   Proved for the table-construction model (Build/Table.v after machine_to_table.rs), for every
   machine m, validated file f and hash iteration order: if machine_to_table returns an error it
   is a TableConflict whose state index is a state of m, whose two items belong to that state,
   and the two items demand different parser actions on the same lookahead (terminal or end of
   input); the attached file and machine are f and m.
   NOT proved: C11_machine_is_LALR (m is the grammar's LALR(1) automaton: builder exactness, C17);
   decided per grammar by the check's brute-force LALR(1) reference. *)
From Coq Require Import List.
From Kiki Require Import Base.Ord Base.Chars Data Build.Machine Build.Table Build.TableProofs.

Theorem C11_conflict_is_genuine : forall m f ho e,
  machine_to_table ho m f = Err e ->
  exists c, e = ETableConflict c /\ cf_file c = f /\ cf_machine c = m /\
            cf_state c < length (m_states m) /\
            in_state m (cf_state c) (cf_item1 c) /\ in_state m (cf_state c) (cf_item2 c) /\
            exists q a1 a2, demands m f (cf_state c) (cf_item1 c) q a1 /\
                            demands m f (cf_state c) (cf_item2 c) q a2 /\ a1 <> a2.
Proof. exact conflict_is_genuine. Qed.

Print Assumptions C11_conflict_is_genuine.
