(* C11 — a table-conflict error pinpoints a real conflict in the real automaton.

   Proved for the table-construction model (Build/Table.v after machine_to_table.rs), for every
   machine m, validated file f and hash iteration order: if machine_to_table returns an error it
   is a TableConflict whose state index is a state of m, whose two items belong to that state,
   and the two items demand different parser actions on the same lookahead (terminal or end of
   input); the attached file and machine are f and m.
   AND the machine in question — the one the generator builds for the validated file and attaches
   to the error — is the LALR(1) automaton in this sense (C11_machine_is_the_lalr_automaton): its
   states are closed item sets with pairwise distinct LR(0) cores, its transitions are deterministic
   and complete with targets having the core of the advanced kernel's closure (MInv), and every
   item of every state is derivable from the start item by the closure rule and transitions: the
   lookahead sets are the least ones.  So a reported conflict is a conflict of that automaton.
   AND that is the textbook definition (C11_machine_is_the_merge_of_the_canonical_LR1_sets,
   Build/CanonMachine.v): with I(g) the canonical LR(1) item set reached by reading the viable
   prefix g (I([]) = closure of the start item, I(g x) = closure(goto(I(g), x))), the items of
   state k are exactly the union of the I(g) over the g that lead to k, every such I(g) has
   exactly the core of state k, distinct states have distinct cores, and the FIRST map used by
   the closure is exactly FIRST / nullable of the grammar (Build/FirstLeast.v).
   The check still compares every sampled automaton with a brute-force LALR(1) reference. *)
From Coq Require Import List.
From Coq Require Import Permutation.
From Kiki Require Import Base.Ord Base.Chars Data Build.Machine Build.Table Build.TableProofs Build.ClosureProofs Build.MachineSpec Build.DerProofs Build.FirstLeast Build.CanonMachine Build.GenCorrect.

Theorem C11_conflict_is_genuine : forall m f ho e,
  machine_to_table ho m f = Err e ->
  exists c, e = ETableConflict c /\ cf_file c = f /\ cf_machine c = m /\
            cf_state c < length (m_states m) /\
            in_state m (cf_state c) (cf_item1 c) /\ in_state m (cf_state c) (cf_item2 c) /\
            exists q a1 a2, demands m f (cf_state c) (cf_item1 c) q a1 /\
                            demands m f (cf_state c) (cf_item2 c) q a2 /\ a1 <> a2.
Proof. exact conflict_is_genuine. Qed.

Theorem C11_machine_is_the_lalr_automaton : forall hot fu v m,
  (forall l, Permutation (hot l) l) -> validated_ast_to_machine hot fu v = Ok m ->
  exists cx, cx_rules cx = get_rules v /\ cx_start cx = vf_start v /\
             MInv cx m /\
             (forall k st it, nth_error (m_states m) k = Some st -> In it st -> Der cx (m_transitions m) (m_start m) k it) /\
             (forall i j si sj, nth_error (m_states m) i = Some si -> nth_error (m_states m) j = Some sj -> same_cores si sj -> i = j).
Proof. exact machine_is_the_lalr_automaton. Qed.

Theorem C11_machine_is_the_merge_of_the_canonical_LR1_sets : forall hot fu v m,
  (forall l, Permutation (hot l) l) -> validated_ast_to_machine hot fu v = Ok m ->
  exists cx, cx_rules cx = get_rules v /\ cx_start cx = vf_start v /\
    (forall n, (forall t, In t (fs_terminals (fm_get_or_empty (cx_first cx) n)) <-> fder (get_rules v) n t) /\
               (fs_eps (fm_get_or_empty (cx_first cx) n) = true <-> nder (get_rules v) n)) /\
    (forall k st it, nth_error (m_states m) k = Some st ->
                     (In it st <-> exists g, npath m g k /\ nvalid1 cx g it)) /\
    (forall g k, npath m g k -> forall st it, nth_error (m_states m) k = Some st -> In it st ->
                 exists it', nvalid1 cx g it' /\ core_of it' = core_of it) /\
    (forall i j si sj, nth_error (m_states m) i = Some si -> nth_error (m_states m) j = Some sj -> same_cores si sj -> i = j).
Proof. exact machine_is_merged_canonical_LR1. Qed.

Print Assumptions C11_conflict_is_genuine.
Print Assumptions C11_machine_is_the_merge_of_the_canonical_LR1_sets.
Print Assumptions C11_machine_is_the_lalr_automaton.
