(* C07 — generate is total: no panic, abort or hang on any input text.

   The model turns every unwrap / expect / index / slice / "Impossible" panic of the pipeline
   into an explicit Panic result, and every loop into recursion on fuel.
   Proved: the tokenizer never panics on any text (every slice it takes is on character boundaries
   inside the source) and has no unbounded loop; the front-end parse loop (the tables of parser.rs, regenerated on this run) never
   reaches a Panic, for every token sequence and every fuel; the table-construction stage returns
   no error other than a conflict (so no other failure is disguised as one).
   NOT proved: C07_total (generate_model never returns Panic, and some fuel always suffices);
   the check runs the crate on malformed and unusual inputs in-process under catch_unwind and in
   watchdog-guarded child processes, and requires Ok/Err equal to the model's result. *)
From Coq Require Import List.
From Kiki Require Import Base.Ord Base.Chars Data Lex.Model Lex.NoPanic LR.Driver LR.Term LR.ValidateProofs Front.Parse Front.KikiValid
  Build.Machine Build.Table Build.TableProofs.
From Kiki Require Gen.KikiAnn.

Theorem C07_front_end_loop_never_panics : forall fuel (w : list token) site,
  parse token_kind kiki_ptable fuel w <> OPanic site.
Proof.
  exact (fun fuel w site =>
           validated_safe token_kind kiki_ptable _ _ kiki_tables_valid fuel w site (all_tokens_bounded w)).
Qed.

Theorem C07_tokenizer_never_panics : forall src site,
  tokenize src <> Panic site /\ tokenize src <> OutOfFuel site.
Proof. exact tokenize_never_panics. Qed.

Theorem C07_front_end_loop_terminates : forall (w : list token),
  parse token_kind kiki_ptable
        (Gen.KikiAnn.kiki_K + ph Gen.KikiAnn.kiki_phi (pt_start kiki_ptable)
         + length w * (Gen.KikiAnn.kiki_K + M Gen.KikiAnn.kiki_phi + 1) + 1) w <> OOutOfFuel.
Proof.
  exact (fun w => validated_terminates token_kind kiki_ptable _ _ kiki_tables_valid _ _ kiki_tables_terminate
                    w (all_tokens_bounded w)).
Qed.

Theorem C07_table_stage_fails_only_with_a_conflict : forall m f ho e,
  machine_to_table ho m f = Err e -> exists c, e = ETableConflict c.
Proof.
  exact (fun m f ho e H => match conflict_is_genuine m f ho e H with
                           | ex_intro _ c (conj Hc _) => ex_intro _ c Hc
                           end).
Qed.

Print Assumptions C07_front_end_loop_never_panics.
Print Assumptions C07_tokenizer_never_panics.
Print Assumptions C07_front_end_loop_terminates.
Print Assumptions C07_table_stage_fails_only_with_a_conflict.
