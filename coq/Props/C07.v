(* C07 — generate is total: no panic, abort or hang on any input text.

   The model turns every unwrap / expect / index / slice / "Impossible" panic of the pipeline
   into an explicit Panic result, and every loop into recursion on fuel.
   Proved: the tokenizer never panics on any text (every slice it takes is on character boundaries
   inside the source) and has no unbounded loop; the front-end parse loop (the tables of parser.rs, regenerated on this run) never
   reaches a Panic, for every token sequence and every fuel; the table-construction stage returns
   no error other than a conflict (so no other failure is disguised as one).
   AND the whole statement's "no panic" half, for EVERY string and every iteration order of the
   hash collections: the model of generate never returns Panic (C07_generate_never_panics).
   The proof goes stage by stage and shows each invariant the code silently relies on:
     tokens span substrings of the source on character boundaries (Lex/Spans.v), so the
       error for an unexpected token can slice the source and Token::start cannot underflow;
     the reduce functions + cst_to_ast are total on derivation trees of the Kiki grammar
       (Front/CstTotal.v), and the parser only returns derivation trees (soundness of the
       validated front-end tables);
     validate_ast is straight-line Ok/Err code (Ast/NoPanic.v);
     the FIRST map has an entry for the type of every rule; items only name existing rules;
       queue indices are in range; the renumbering is total; every shift has a transition;
       the goto-conflict arm is unreachable (transitions are deterministic and duplicate-free);
       every lookahead and every symbol is a declared name; cells are in range (Build/NoPanic.v);
     get_type / method-name lookups are for declared terminals, table reads are in range, and
       the template regenerated from table_to_rust.rs on this run has no unbound hole
       (Emit/NoPanic.v, re-checked by vm_compute).
   AND the "never loops" half, for EVERY string (Totality.v, Build/Terminates.v, Emit/NoFuel.v):
   with the fuel of every loop left as a parameter (generate_full_gen; generate_full is the instance
   with the fixed fuel the check runs the model with), the model returns Ok or Err — not Panic, not
   OutOfFuel — for every fuel above an explicit bound computed from the input
   (C07_generate_is_total), and any larger fuel gives the same result (C07_fuel_is_only_a_bound).
   Why each loop ends:
     tokenizer          structural recursion on the text;
     front-end parse    potential function checked against the regenerated tables (certificate);
     FIRST fixpoint     every pass that reports a change adds a terminal or a nullable flag to a map
                        whose entries are bounded by the terminals occurring in the rules;
     closure            every inserted item is new and lies in a finite universe of items
                        (rule x dot x lookahead), and brings a bounded number of implied items;
     worklist           states have pairwise distinct cores, so there are at most 2^|cores| of
                        them, each with at most |universe| items; every re-queueing adds an item to
                        a state: potential 2(bound - total size) + |queue| strictly decreases;
     fresh names        X, X2, X3, ... are pairwise distinct (decimal rendering is injective), so
                        one of the first |used|+1 is free.
   NOT proved: host stack depth (recursion of the real front end on deeply nested types), and the
   running TIME bound of the property (the bound on the number of loop iterations is exponential
   in the number of LR(0) items, as it is for LALR construction in general).
   The check runs the crate on malformed and unusual inputs in-process under catch_unwind and in
   watchdog-guarded child processes, and requires Ok/Err equal to the model's result. *)
From Coq Require Import List Arith.
From Kiki Require Import Base.Ord Base.Chars Data Lex.Model Lex.NoPanic LR.Driver LR.Term LR.ValidateProofs Front.Parse Front.KikiValid
  Build.Machine Build.Table Build.TableProofs Build.FuelMono Build.Terminates Emit.NoFuel Np Nf Pipeline PipelineProofs Totality.
From Kiki Require Gen.KikiAnn.

Theorem C07_generate_never_panics : forall ho digest src site,
  perm_hash_order ho -> generate_model ho digest src <> Panic site.
Proof. exact (fun ho digest src site H => generate_never_panics ho digest src H site). Qed.

(* the two orders the correspondence check runs the model with are instances *)
Theorem C07_checked_orders_never_panic : forall digest src site,
  generate_model ho_id digest src <> Panic site /\ generate_model ho_rev digest src <> Panic site.
Proof.
  intros digest src site. split; apply C07_generate_never_panics.
  - split; [intros l; apply Permutation.Permutation_refl|split; intros l; apply Permutation.Permutation_refl].
  - split; [intros l; apply Permutation.Permutation_sym, Permutation.Permutation_rev|
            split; intros l; apply Permutation.Permutation_sym, Permutation.Permutation_rev].
Qed.


Theorem C07_front_end_loop_never_panics : forall fuel (w : list token) site,
  parse token_kind kiki_ptable fuel w <> OPanic site.
Proof.
  exact (fun fuel w site =>
           validated_safe token_kind kiki_ptable _ _ kiki_tables_valid fuel w site (all_tokens_bounded w)).
Qed.

Theorem C07_tokenizer_never_panics : forall src site,
  tokenize src <> Panic site /\ tokenize src <> OutOfFuel site.
Proof. exact tokenize_never_panics. Qed.

Theorem C07_front_end_loop_terminates : forall (w : list token),
  parse token_kind kiki_ptable
        (Gen.KikiAnn.kiki_K + ph Gen.KikiAnn.kiki_phi (pt_start kiki_ptable)
         + length w * (Gen.KikiAnn.kiki_K + M Gen.KikiAnn.kiki_phi + 1) + 1) w <> OOutOfFuel.
Proof.
  exact (fun w => validated_terminates token_kind kiki_ptable _ _ kiki_tables_valid _ _ kiki_tables_terminate
                    w (all_tokens_bounded w)).
Qed.

Theorem C07_table_stage_fails_only_with_a_conflict : forall m f ho e,
  machine_to_table ho m f = Err e -> exists c, e = ETableConflict c.
Proof.
  exact (fun m f ho e H => match conflict_is_genuine m f ho e H with
                           | ex_intro _ c (conj Hc _) => ex_intro _ c Hc
                           end).
Qed.

(* ---------- total: Ok or Err, for every string, once the fuel is above an explicit bound ---------- *)
Theorem C07_generate_is_total : forall ff fb ho digest src,
  perm_hash_order ho -> (forall n, front_enough n <= ff n) -> (forall v, fuels_le (fuels_enough v) (fb v)) ->
  (exists r, generate_full_gen ff fb ho digest src = Ok r) \/ (exists e, generate_full_gen ff fb ho digest src = Err e).
Proof. exact generate_is_total. Qed.

Theorem C07_fuel_is_only_a_bound : forall ff ff' fb fb' ho digest src,
  (forall site, generate_full_gen ff fb ho digest src <> OutOfFuel site) ->
  (forall n, ff n <= ff' n) -> (forall v, fuels_le (fb v) (fb' v)) ->
  generate_full_gen ff' fb' ho digest src = generate_full_gen ff fb ho digest src.
Proof. exact generate_gen_mono. Qed.

(* the model as the check runs it is the instance with the fixed fuel, and whenever it does not
   report OutOfFuel its result is the one every larger fuel gives *)
Theorem C07_checked_model_is_an_instance : forall ho digest src,
  generate_full ho digest src = generate_full_gen front_fuel (fuels_for 0) ho digest src.
Proof. exact generate_full_is_an_instance. Qed.

(* the hypotheses on the fuel are satisfiable *)
Example C07_enough_fuel_exists :
  (forall n, front_enough n <= front_enough n) /\ (forall v, fuels_le (fuels_enough v) (fuels_enough v)).
Proof. split; [intros; apply Nat.le_refl|]. intros v. repeat split; apply Nat.le_refl. Qed.

Print Assumptions C07_generate_is_total.
Print Assumptions C07_fuel_is_only_a_bound.
Print Assumptions C07_checked_model_is_an_instance.
Print Assumptions C07_front_end_loop_never_panics.
Print Assumptions C07_tokenizer_never_panics.
Print Assumptions C07_front_end_loop_terminates.
Print Assumptions C07_table_stage_fails_only_with_a_conflict.
Print Assumptions C07_generate_never_panics.
Print Assumptions C07_checked_orders_never_panic.
