(* C15 — the emitted header carries the source hash; get_grammar_hash reads it back.

   Proved, for the template regenerated from table_to_rust.rs on this run:
     - the template begins with // comment lines none of which is a hash line, then
       `// @sha256 `, then the digest hole, then a newline (checked by vm_compute);
     - for every instantiation of such a template and every digest without line breaks,
       get_grammar_hash (emitted text) = Some digest;
     - the three clauses of get_grammar_hash's specification on complete lines: a hash line yields
       its remainder (prefix stripped once), other // lines are skipped, any other line gives None.
   And for the whole generator: whatever `generate` emits for a source and a digest (without line
   breaks), get_grammar_hash of that text is that digest (C15_generate_roundtrip).
   That the digest is SHA-256 of the exact source is checked against hashlib on every case. *)
From Coq Require Import List NArith.
From Kiki Require Import Base.Ord Base.Chars Data Emit.Emit Emit.Hash Emit.HashProofs Pipeline PipelineProofs.
From Kiki Require Gen.Template.

Theorem C15_roundtrip : forall env text d,
  fill env Gen.Template.file_template = Ok text -> env_get env "grammar_sha256" = Some d ->
  no_line_break d -> get_grammar_hash text = Some d.
Proof. exact (fun env text d => template_roundtrip _ env text d current_template_header_ok). Qed.

Theorem C15_hash_line : forall d rest, no_line_break d ->
  get_grammar_hash (hash_prefix ++ d ++ 10%N :: rest) = Some d.
Proof. exact hash_line_found. Qed.

Theorem C15_other_comment_lines_are_skipped : forall l rest, no_line_break l ->
  starts_with (s2l "//") l = true -> strip_prefix hash_prefix l = None ->
  get_grammar_hash (l ++ 10%N :: rest) = get_grammar_hash rest.
Proof. exact comment_line_skipped. Qed.

Theorem C15_non_comment_line_ends_the_header : forall l rest, no_line_break l ->
  starts_with (s2l "//") l = false -> get_grammar_hash (l ++ 10%N :: rest) = None.
Proof. exact non_comment_line_stops. Qed.

Theorem C15_generate_roundtrip : forall ho digest src text,
  generate_model ho digest src = Ok text -> no_line_break digest -> get_grammar_hash text = Some digest.
Proof. exact generate_hash_roundtrip. Qed.

Print Assumptions C15_roundtrip.
Print Assumptions C15_generate_roundtrip.
Print Assumptions C15_hash_line.
Print Assumptions C15_other_comment_lines_are_skipped.
Print Assumptions C15_non_comment_line_ends_the_header.
