(* C10 — static well-formedness rules are enforced and reported truthfully.

   Proved for the validator model (Ast/Validate.v, function by function after
   kiki/src/pipeline/validate_ast/*.rs), for every AST:
     validate_ast f = Ok v  ->  WF f
   where WF (Ast/WF.v) is the conjunction the property states: exactly one start naming a
   defined nonterminal, exactly one terminal declaration, every reference resolved in its own
   namespace, top-level names pairwise distinct across the three namespaces, per-enum distinct
   variant names and symbol sequences, capitalisation rules.  Also: the validated file is the
   input (same declarations in the same order).
   NOT proved: C10_errors_truthful (validate_ast f = Err e -> e describes a violation present
   at the reported positions); decided per input by the check's oracle (oracles.wf_check). *)
From Coq Require Import List.
From Kiki Require Import Base.Ord Base.Chars Data Ast.Validate Ast.WF Ast.ValidateProofs.

Theorem C10_accepts_only_well_formed_files : forall f v, validate_ast f = Ok v -> WF f.
Proof. exact validate_ast_ok_WF. Qed.

Theorem C10_validated_file_is_the_input : forall f v, validate_ast f = Ok v ->
  vf_nts v = flat_map item_nts f /\
  (exists s, start_idents f = [s] /\ vf_start v = id_name s) /\
  (exists d, terminal_decls f = [d] /\ vt_name (vf_tenum v) = id_name (td_name d) /\ vt_attrs (vf_tenum v) = td_attrs d).
Proof. exact validate_ast_ok_same_file. Qed.

Print Assumptions C10_accepts_only_well_formed_files.
Print Assumptions C10_validated_file_is_the_input.
