(* C10 — static well-formedness rules are enforced and reported truthfully.

   Proved for the validator model (Ast/Validate.v, function by function after
   kiki/src/pipeline/validate_ast/*.rs), for every AST:
     validate_ast f = Ok v  ->  WF f
   where WF (Ast/WF.v) is the conjunction the property states: exactly one start naming a
   defined nonterminal, exactly one terminal declaration, every reference resolved in its own
   namespace, top-level names pairwise distinct across the three namespaces, per-enum distinct
   variant names and symbol sequences, capitalisation rules.  Also: the validated file is the
   input (same declarations in the same order).
   AND the second half, for every AST:
     validate_ast f = Err e  ->  truthful f e
   where truthful (Ast/Truthful.v) says, error variant by error variant, that the violation the
   error names is present in the file at the positions it carries: the undefined name occurs as
   a reference (or as the start symbol) at that position and is not declared in its namespace;
   a name clash names two different declarations of that name, the first before the second; a
   capitalisation error points at a declared name / variant / field that breaks the rule; a
   variant clash names two variants of one enum with that name / that symbol sequence; the
   missing/multiple start and terminal-enum errors count the declarations (and list their
   positions).  For a source text: generate = Ok implies the parsed file is WF, and a validation
   error of generate is truthful for the parsed file (theorems C10_generate_ok_only... and C10_generate_validation... below).
   The positions are those stored in the AST; AND they are byte offsets of tokens of the source
   (PosMapProofs.v): every position carried by a non-syntax error of `generate` is the position
   stored by some token of the tokenised source, whose text stands in the source at exactly that
   byte offset (one byte after the `$` for a terminal name) — a corollary of the position-map
   theorem of C16 taken with a map that fixes exactly the stored positions
   (C10_error_positions_are_byte_offsets_of_tokens).  The check's oracle (oracles.wf_check on the
   token stream) decides which token per input. *)
From Coq Require Import List.
From Kiki Require Import Base.Ord Base.Chars Data Lex.Model Front.Parse Ast.Validate Ast.WF Ast.ValidateProofs Ast.Truthful Lex.Spec Pipeline PipelineProofs PosMapProofs.

Theorem C10_accepts_only_well_formed_files : forall f v, validate_ast f = Ok v -> WF f.
Proof. exact validate_ast_ok_WF. Qed.

Theorem C10_validated_file_is_the_input : forall f v, validate_ast f = Ok v ->
  vf_nts v = flat_map item_nts f /\
  (exists s, start_idents f = [s] /\ vf_start v = id_name s) /\
  (exists d, terminal_decls f = [d] /\ vt_name (vf_tenum v) = id_name (td_name d) /\ vt_attrs (vf_tenum v) = td_attrs d).
Proof. exact validate_ast_ok_same_file. Qed.

Theorem C10_errors_are_truthful : forall f e, validate_ast f = Err e -> truthful f e.
Proof. exact validate_ast_err_truthful. Qed.

Theorem C10_generate_ok_only_for_well_formed_files : forall ho digest src text,
  generate_model ho digest src = Ok text ->
  exists tokens ast, tokenize src = Ok tokens /\ front_parse (front_fuel (length tokens)) src tokens = Ok ast /\ WF ast.
Proof. exact generate_ok_only_wf. Qed.

Theorem C10_generate_validation_errors_are_truthful : forall ho digest src tokens ast e,
  tokenize src = Ok tokens -> front_parse (front_fuel (length tokens)) src tokens = Ok ast ->
  validate_ast ast = Err e -> generate_model ho digest src = Err e /\ truthful ast e.
Proof. exact generate_validation_error_truthful. Qed.

Theorem C10_error_positions_are_byte_offsets_of_tokens : forall ho digest src toks e,
  tokenize src = Ok toks -> generate_model ho digest src = Err e ->
  (forall s c x, e <> EParse s c x) ->
  Forall (fun p => exists t pre post, In t toks /\ spos t = p /\ src = pre ++ lexeme t ++ post /\ tok_pos t = blen pre)
         (err_positions e).
Proof. exact error_positions_are_byte_offsets_of_tokens. Qed.
Print Assumptions C10_error_positions_are_byte_offsets_of_tokens.
Print Assumptions C10_accepts_only_well_formed_files.
Print Assumptions C10_validated_file_is_the_input.
Print Assumptions C10_errors_are_truthful.
Print Assumptions C10_generate_ok_only_for_well_formed_files.
Print Assumptions C10_generate_validation_errors_are_truthful.
