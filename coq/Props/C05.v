(* C05 — the emitted module compiles for any legal user naming, with no trait bounds.

   Proved for the emitter model: the twelve identifiers the generator invents (Eof variant,
   Quasiterminal, QuasiterminalKind, NonterminalKind, State, Node, Action, RuleKind, reduce prefix,
   ACTION_TABLE, GOTO_TABLE, parse's type parameter) are pairwise distinct and differ from every
   identifier the user defined (nonterminals, terminal variants, the terminal enum).
   That rustc accepts the text is not a Coq statement; the check compiles the real output for
   adversarially named grammars with trait-less payload types.  Known findings K1 (no terminals)
   and K2 (an enum variant named `Error` makes `Self::Error` ambiguous in the emitted TryFrom impl). *)
From Coq Require Import List.
From Kiki Require Import Base.Ord Base.Chars Data Emit.Emit Emit.EmitProofs.

Theorem C05_helper_names_are_fresh : forall fuel f nm, make_names fuel f = Ok nm ->
  NoDup (helper_names nm) /\ forall n, In n (helper_names nm) -> ~ In n (get_defined_identifiers f).
Proof. exact helper_names_fresh. Qed.

Theorem C05_unique_identifier_is_unused : forall fuel pref used n used',
  create_unique_identifier fuel pref used = Ok (n, used') -> ~ In n used /\ used' = n :: used.
Proof. exact create_unique_identifier_fresh. Qed.

Print Assumptions C05_helper_names_are_fresh.
Print Assumptions C05_unique_identifier_is_unused.
