(* C06 — emitted type definitions and parse signature mirror the declarations.

   Proved for the emitter model: a fieldset whose fields are all `_` is emitted unit-like; every
   type definition starts with the declaration's attributes followed by `pub struct <name>` /
   `pub enum <name>`.  The full shape (used fields only, Box for nonterminals, declared payload
   types, public struct fields, parse signature) is decided by the check: the real type
   definitions are compared token for token with the definitions expected from the declarations,
   and a client that uses every declared item from outside the module is type-checked by rustc. *)
From Coq Require Import List.
From Kiki Require Import Base.Ord Base.Chars Data Emit.Emit Emit.EmitProofs.

Theorem C06_only_underscore_named_fieldset_is_unit_like : forall f l semi pub_,
  named_used l = false -> named_fieldset_src f l semi pub_ = Ok (empty_fieldset_src semi).
Proof. exact unused_named_fieldset_is_unit_like. Qed.

Theorem C06_only_underscore_tuple_fieldset_is_unit_like : forall f l semi pub_,
  tuple_used l = false -> tuple_fieldset_src f l semi pub_ = Ok (empty_fieldset_src semi).
Proof. exact unused_tuple_fieldset_is_unit_like. Qed.

Theorem C06_definition_header : forall f n s, nonterminal_type_def_src f n = Ok s ->
  exists rest,
    s = attributes_src (match n with NStruct d => sd_attrs d | NEnum e => ed_attrs e end)
          ++ (match n with NStruct _ => S_ "pub struct " | NEnum _ => S_ "pub enum " end) ++ nt_name n ++ rest.
Proof. exact typedef_starts_with_its_attributes. Qed.

Print Assumptions C06_only_underscore_named_fieldset_is_unit_like.
Print Assumptions C06_only_underscore_tuple_fieldset_is_unit_like.
Print Assumptions C06_definition_header.
