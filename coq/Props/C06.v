(* C06 — emitted type definitions and parse signature mirror the declarations.

   Proved for the emitter model: a fieldset whose fields are all `_` is emitted unit-like; every
   type definition starts with the declaration's attributes followed by `pub struct <name>` /
   `pub enum <name>`.
   AND the full shape, for every source the model of `generate` accepts (C06_module_declares;
   Emit/TypedefSpec.v, Emit/ModuleShape.v): after its header the emitted text is the terminal
   enum `pub enum <name> { <variants> }` preceded by its attributes, then one definition per
   nonterminal in declaration order, then `pub fn parse<P>(src: P) -> Result<<start>,
   Option<<terminal enum>>> where P: IntoIterator<Item = <terminal enum>> {`; and each definition
   is `typedef_spec` of its declaration: its attributes, `pub struct N` / `pub enum N`, the
   variants in order, and for every fieldset exactly the used (non-`_`) fields in order — `pub`
   in a struct — a nonterminal-typed field of type `Box<N>`, a terminal-typed field of the payload
   type declared for that terminal (C06_fields_are_the_used_fields_in_order), unit-like when no
   field is used.  The shape of the template is checked by vm_compute on the template
   regenerated from table_to_rust.rs on this run.
   What rustc makes of that text (and that nothing else in the module shadows these items) is
   decided by the check: the real type definitions are compared token for token with the
   definitions expected from the declarations, and a client that uses every declared item from
   outside the module is type-checked by rustc. *)
From Coq Require Import List.
From Kiki Require Import Base.Ord Base.Chars Data Emit.Emit Emit.EmitProofs Emit.TypedefSpec Emit.ModuleShape Pipeline PipelineProofs.

Theorem C06_only_underscore_named_fieldset_is_unit_like : forall f l semi pub_,
  named_used l = false -> named_fieldset_src f l semi pub_ = Ok (empty_fieldset_src semi).
Proof. exact unused_named_fieldset_is_unit_like. Qed.

Theorem C06_only_underscore_tuple_fieldset_is_unit_like : forall f l semi pub_,
  tuple_used l = false -> tuple_fieldset_src f l semi pub_ = Ok (empty_fieldset_src semi).
Proof. exact unused_tuple_fieldset_is_unit_like. Qed.

Theorem C06_definition_header : forall f n s, nonterminal_type_def_src f n = Ok s ->
  exists rest,
    s = attributes_src (match n with NStruct d => sd_attrs d | NEnum e => ed_attrs e end)
          ++ (match n with NStruct _ => S_ "pub struct " | NEnum _ => S_ "pub enum " end) ++ nt_name n ++ rest.
Proof. exact typedef_starts_with_its_attributes. Qed.

Theorem C06_fields_are_the_used_fields_in_order : forall f pub_ l ls, named_lines f pub_ l = Some ls ->
  length ls = length (filter named_is_used l) /\
  Forall2 (fun x line => exists ty, field_type_spec f (nf_symbol x) = Some ty /\ line = named_line pub_ x ty) (filter named_is_used l) ls.
Proof. exact named_lines_filter. Qed.
Theorem C06_tuple_fields_are_the_used_fields_in_order : forall f pub_ l ls, tuple_lines f pub_ l = Some ls ->
  length ls = length (filter tuple_is_used l) /\
  Forall2 (fun x line => exists ty, field_type_spec f (tuple_field_sym x) = Some ty /\ line = tuple_line pub_ ty) (filter tuple_is_used l) ls.
Proof. exact tuple_lines_filter. Qed.
Theorem C06_definition_is_its_specification : forall f n s, nonterminal_type_def_src f n = Ok s -> typedef_spec f n = Some s.
Proof. exact typedef_src_spec. Qed.
Theorem C06_module_declares : forall ho digest src text,
  generate_model ho digest src = Ok text ->
  exists v nm defs pre c rest,
    front_end src = Ok v /\
    Forall2 (fun n d => typedef_spec v n = Some d) (vf_nts v) defs /\
    let P := n_parse_type_param nm in let tenum := vt_name (vf_tenum v) in
    text = (pre ++ attributes_src (vt_attrs (vf_tenum v)) ++ S_ "pub enum " ++ tenum ++ S_ " {
" ++ indent 1 (terminal_enum_variants_src v) ++ S_ "
}

" ++ join (nl ++ nl) defs ++ c ++ S_ "pub fn parse<" ++ P ++ S_ ">(src: " ++ P ++ S_ ") -> Result<" ++ vf_start v ++ S_ ", Option<" ++ tenum ++ S_ ">>
where " ++ P ++ S_ ": IntoIterator<Item = " ++ tenum ++ S_ "> {" ++ rest)%list.
Proof. exact generate_module_declares. Qed.
Print Assumptions C06_fields_are_the_used_fields_in_order.
Print Assumptions C06_tuple_fields_are_the_used_fields_in_order.
Print Assumptions C06_definition_is_its_specification.
Print Assumptions C06_module_declares.
Print Assumptions C06_only_underscore_named_fieldset_is_unit_like.
Print Assumptions C06_only_underscore_tuple_fieldset_is_unit_like.
Print Assumptions C06_definition_header.
