(* C04 — a parser is emitted exactly for the LALR(1) grammars.

   Proved:
     - (model of machine_to_table) the only error it can return is a genuine conflict of the
       machine it was given: two items of one state demanding different actions on one
       lookahead; identical actions on a cell are not a conflict (C04_error_means_conflict);
     - (Tier A) tables that pass the validator belong to an unambiguous grammar: two
       derivations with the same yield are equal — so an ambiguous grammar can never come with
       valid tables (C04_valid_tables_mean_unambiguous).
   NOT proved: C04_exact (generate = Ok  <->  the LALR(1) automaton of the grammar, as defined
   from canonical LR(1) item sets merged by core, has no conflict): needs builder exactness.
   Decided per grammar by the check against a brute-force canonical-LR(1)-then-merge reference. *)
From Coq Require Import List.
From Kiki Require Import Base.Ord Base.Chars Data LR.Driver LR.Grammar LR.Validate LR.ValidateProofs
  Build.Machine Build.Table Build.TableProofs.

Theorem C04_error_means_conflict : forall m f ho e,
  machine_to_table ho m f = Err e -> genuine m f e.
Proof. exact conflict_is_genuine. Qed.

Theorem C04_valid_tables_mean_unambiguous :
  forall {P} (kind : P -> nat) T ann ft, validate T ann ft = true ->
  forall t1 t2, wf kind T (PN (pt_start_nt T)) t1 -> wf kind T (PN (pt_start_nt T)) t2 ->
                yield t1 = yield t2 -> t1 = t2.
Proof. exact @validated_unambiguous. Qed.

Print Assumptions C04_error_means_conflict.
Print Assumptions C04_valid_tables_mean_unambiguous.
