(* C04 — a parser is emitted exactly for the LALR(1) grammars.

   Proved:
     - (model of machine_to_table) the only error it can return is a genuine conflict of the
       machine it was given: two items of one state demanding different actions on one
       lookahead; identical actions on a cell are not a conflict (C04_error_means_conflict);
     - (Tier A) tables that pass the validator belong to an unambiguous grammar: two
       derivations with the same yield are equal — so an ambiguous grammar can never come with
       valid tables (C04_valid_tables_mean_unambiguous).
     - (Tier B) every grammar the generator accepts is unambiguous, and the parser emitted for
       it is a correct recogniser (C04_accepted_grammars_are_unambiguous; C01.v, C02.v);
     - (Tier B) the table handed to the emitter holds exactly the demands of the items of the
       machine, so a rejection is a conflict between two such demands and an acceptance means
       there was none (C04_table_is_exactly_the_demands).
   NOT proved: C04_exact (generate = Ok  <->  the LALR(1) automaton of the grammar, as defined
   from canonical LR(1) item sets merged by core, has no conflict): the lookahead sets of the
   machine are proved closed and justified, not proved LEAST.
   Decided per grammar by the check against a brute-force canonical-LR(1)-then-merge reference. *)
From Coq Require Import List.
From Kiki Require Import Base.Ord Base.Chars Data LR.Driver LR.Grammar LR.Validate LR.ValidateProofs
  Build.Machine Build.Table Build.TableProofs.

Theorem C04_error_means_conflict : forall m f ho e,
  machine_to_table ho m f = Err e -> genuine m f e.
Proof. exact conflict_is_genuine. Qed.

Theorem C04_valid_tables_mean_unambiguous :
  forall {P} (kind : P -> nat) T ann ft, validate T ann ft = true ->
  forall t1 t2, wf kind T (PN (pt_start_nt T)) t1 -> wf kind T (PN (pt_start_nt T)) t2 ->
                yield t1 = yield t2 -> t1 = t2.
Proof. exact @validated_unambiguous. Qed.

From Kiki Require Import Build.FillProofs Build.TableSpec Emit.Parser Pipeline PipelineProofs.

Theorem C04_accepted_grammars_are_unambiguous :
  forall {P} (kind : P -> nat) ho digest src out text pt,
    perm_hash_order ho -> generate_full ho digest src = Ok (out, text) ->
    ptable_of (go_file out) (go_table out) = Some pt ->
    forall t1 t2, wf kind pt (PN (pt_start_nt pt)) t1 -> wf kind pt (PN (pt_start_nt pt)) t2 ->
                  yield t1 = yield t2 -> t1 = t2.
Proof. exact @accepted_grammar_unambiguous. Qed.

Theorem C04_table_is_exactly_the_demands : forall m f ho t,
  perm_ho ho -> machine_to_table ho m f = Ok t -> table_spec m f t.
Proof. exact machine_to_table_spec. Qed.

Print Assumptions C04_error_means_conflict.
Print Assumptions C04_valid_tables_mean_unambiguous.
Print Assumptions C04_accepted_grammars_are_unambiguous.
Print Assumptions C04_table_is_exactly_the_demands.
