(* C04 — a parser is emitted exactly for the LALR(1) grammars.

   Proved:
     - (model of machine_to_table) the only error it can return is a genuine conflict of the
       machine it was given: two items of one state demanding different actions on one
       lookahead; identical actions on a cell are not a conflict (C04_error_means_conflict);
     - (Tier A) tables that pass the validator belong to an unambiguous grammar: two
       derivations with the same yield are equal — so an ambiguous grammar can never come with
       valid tables (C04_valid_tables_mean_unambiguous).
     - (Tier B) every grammar the generator accepts is unambiguous, and the parser emitted for
       it is a correct recogniser (C04_accepted_grammars_are_unambiguous; C01.v, C02.v);
     - (Tier B) the table handed to the emitter holds exactly the demands of the items of the
       machine, so a rejection is a conflict between two such demands and an acceptance means
       there was none (C04_table_is_exactly_the_demands).
     - (exactness) for a validated file and the automaton the generator builds for it — closed
       item sets, one state per LR(0) core, lookahead sets LEAST (C11.v, C17.v) — a table is
       produced if and only if no two items of one state ask for different actions on the same
       lookahead (C04_table_exactly_when_conflict_free): generate accepts exactly the grammars
       whose LALR(1) automaton (least-fixpoint sense) is conflict-free.
     - (textbook definition) that automaton IS the merge by core of the canonical LR(1) item
       sets, for every validated file, accepted or rejected
       (C04_automaton_is_the_merge_of_the_canonical_LR1_sets, Build/CanonMachine.v): the items of
       a state are exactly the union of the canonical sets I(g) over the viable prefixes g leading
       to it, each I(g) has exactly the state's core, distinct states have distinct cores, and the
       FIRST map is exactly FIRST / nullable (Build/FirstLeast.v).  So "conflict_free" above is
       "no LALR(1) conflict" in the textbook sense, and generate accepts exactly the LALR(1) grammars
       (conflict = two items of a merged state demanding different actions on one lookahead).
   The check still compares the verdict of every sampled grammar with a brute-force
   canonical-LR(1)-then-merge reference. *)
From Coq Require Import List.
From Kiki Require Import Base.Ord Base.Chars Data LR.Driver LR.Grammar LR.Validate LR.ValidateProofs
  Build.Machine Build.Table Build.TableProofs.

Theorem C04_error_means_conflict : forall m f ho e,
  machine_to_table ho m f = Err e -> genuine m f e.
Proof. exact conflict_is_genuine. Qed.

Theorem C04_valid_tables_mean_unambiguous :
  forall {P} (kind : P -> nat) T ann ft, validate T ann ft = true ->
  forall t1 t2, wf kind T (PN (pt_start_nt T)) t1 -> wf kind T (PN (pt_start_nt T)) t2 ->
                yield t1 = yield t2 -> t1 = t2.
Proof. exact @validated_unambiguous. Qed.

From Coq Require Import Permutation.
From Kiki Require Import Build.ClosureProofs Build.FirstLeast Build.CanonMachine.
From Kiki Require Import Ast.VWF Build.FillProofs Build.TableSpec Build.MachineSpec Build.GenCorrect Build.NoPanic Emit.Parser Pipeline PipelineProofs.

Theorem C04_accepted_grammars_are_unambiguous :
  forall {P} (kind : P -> nat) ho digest src out text pt,
    perm_hash_order ho -> generate_full ho digest src = Ok (out, text) ->
    ptable_of (go_file out) (go_table out) = Some pt ->
    forall t1 t2, wf kind pt (PN (pt_start_nt pt)) t1 -> wf kind pt (PN (pt_start_nt pt)) t2 ->
                  yield t1 = yield t2 -> t1 = t2.
Proof. exact @accepted_grammar_unambiguous. Qed.

Theorem C04_table_is_exactly_the_demands : forall m f ho t,
  perm_ho ho -> machine_to_table ho m f = Ok t -> table_spec m f t.
Proof. exact machine_to_table_spec. Qed.

Theorem C04_table_exactly_when_conflict_free : forall hot hoa fu v m,
  VWF v -> (forall l, Permutation (hot l) l) -> perm_ho hoa ->
  validated_ast_to_machine hot fu v = Ok m ->
  ((exists t, machine_to_table hoa m v = Ok t) <-> conflict_free m v).
Proof.
  intros hot hoa fu v m HV Hpt Hpa Hm.
  destruct (machine_is_the_lalr_automaton hot fu v m Hpt Hm) as (cx & Hr & Hs & HM & _).
  exact (table_iff_conflict_free v cx m hoa HV Hr Hs HM Hpa).
Qed.

Theorem C04_automaton_is_the_merge_of_the_canonical_LR1_sets : forall hot fu v m,
  (forall l, Permutation (hot l) l) -> validated_ast_to_machine hot fu v = Ok m ->
  exists cx, cx_rules cx = get_rules v /\ cx_start cx = vf_start v /\
    (forall n, (forall t, In t (fs_terminals (fm_get_or_empty (cx_first cx) n)) <-> fder (get_rules v) n t) /\
               (fs_eps (fm_get_or_empty (cx_first cx) n) = true <-> nder (get_rules v) n)) /\
    (forall k st it, nth_error (m_states m) k = Some st ->
                     (In it st <-> exists g, npath m g k /\ nvalid1 cx g it)) /\
    (forall g k, npath m g k -> forall st it, nth_error (m_states m) k = Some st -> In it st ->
                 exists it', nvalid1 cx g it' /\ core_of it' = core_of it) /\
    (forall i j si sj, nth_error (m_states m) i = Some si -> nth_error (m_states m) j = Some sj -> same_cores si sj -> i = j).
Proof. exact machine_is_merged_canonical_LR1. Qed.

Print Assumptions C04_error_means_conflict.
Print Assumptions C04_automaton_is_the_merge_of_the_canonical_LR1_sets.
Print Assumptions C04_table_exactly_when_conflict_free.
Print Assumptions C04_valid_tables_mean_unambiguous.
Print Assumptions C04_accepted_grammars_are_unambiguous.
Print Assumptions C04_table_is_exactly_the_demands.
