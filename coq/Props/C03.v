(* C03 — a rejection reports the first offending token, or None at the end of input.

   Proved for validated tables (see C01.v), every payload type and every input w:
   if the parser returns Err(tok) then w = consumed ++ rest where
     - tok is the head of rest: the ORIGINAL token object at index |consumed|, or None when
       rest is empty (the whole input was consumed);
     - the source iterator was pulled exactly |consumed| + 1 times (iterator model in
       LR/Driver.v: one peek per loop iteration, next() only after a peek);
     - no sentence starts with consumed ++ [that token]: the reported index is not too late.
   AND, for every grammar the generator accepts in which every right-hand side derives some token
   sequence (the property's "every nonterminal derives at least one token sequence"):
     - `consumed` itself is a prefix of some sentence: the reported index is not too early
       (C03_all_reject_exact; LR/Viable.v: every item of a state is reached from the state's
       kernel by finitely many closure steps, so what is on the stack can always be completed).
   AND for every accepted grammar, unproductive nonterminals included (the second clause of the
   property's quantifier): the rejection is at the position at which the canonical LR(1) parser of
   the grammar stops (C03_all_reject_where_the_canonical_LR1_parser_stops; LR/CanonAgree.v).  The
   canonical parser is defined from the canonical collection I(g) by viable prefix (LR/CanonLR1.v):
   shift t when an item of I(g) has t after the dot, reduce A -> alpha when [A -> alpha ., a] is in
   I(g) for the lookahead a, accept on [S' -> S ., $] at the end.  Proved: it consumes the same tokens
   as the emitted parser (every driver move made while the canonical parser can move IS the canonical
   move; reductions the driver makes beyond that are "pending" and are replayed by the canonical
   parser whenever the driver shifts again), and from there it can neither shift the reported token
   nor accept, whatever reductions it still makes (a chain of driver reductions ending in a shift of t
   would put t into FIRST(beta a) of a kernel item of I(delta A), hence [A -> alpha ., t] into
   I(delta alpha)).  C03_productivity_hypothesis_is_necessary shows that the sentence-prefix reading
   cannot hold for such grammars.  The check still compares every sampled input with a brute-force
   canonical LR(1) parser. *)
From Coq Require Import List Arith.
From Kiki Require Import Base.Ord Base.Chars Data LR.Driver LR.Grammar LR.Inv LR.Complete LR.ErrPos
  LR.Validate LR.ValidateProofs.
Import ListNotations.

Section C03.
  Context {P : Type} (kind : P -> nat).
  Variable T : ptable.
  Variable ann : list (list item).
  Variable ft : first_table.
  Hypothesis Hv : validate T ann ft = true.

  Theorem C03_reject_position : forall fuel w tok,
    parse kind T fuel w = OReject tok ->
    exists consumed rest,
      w = consumed ++ rest /\ tok = hd_error rest /\
      pulls kind T fuel w = S (length consumed) /\
      (forall x r z, rest = x :: r -> ~ sentence kind T (consumed ++ x :: z)).
  Proof.
    pose proof (validate_parts T ann ft Hv) as (Hfc & _).
    exact (reject_position kind T ann (fseq ft) (FirstOK_of_closed kind T ft Hfc) (validate_Inv T ann ft Hv)).
  Qed.
End C03.

(* for any tables at all: what is handed back is the head of the unconsumed input *)
Theorem C03_returns_the_unconsumed_head : forall {P} (kind : P -> nat) T f sts nodes inp o rest,
  run_rest kind T f (sts, nodes, inp) = (o, rest) ->
  (exists consumed, inp = consumed ++ rest) /\ (forall tok, o = OReject tok -> tok = hd_error rest).
Proof. intros P kind T f. exact (run_rest_suffix kind T f). Qed.


(* ---------- for EVERY grammar the generator accepts (Tier B) ----------
   `generate_full ho digest src = Ok (out, text)` is the model of kiki::generate succeeding on
   the source text src under any hash iteration orders ho; pt is the driver's view of the table
   it emitted (Emit/Parser.v ptable_of: rows = chunks of the flat arrays, rule i = reduce
   function i, terminal/nonterminal i = i-th declaration).  No validator run, no hint: the
   invariants are proved of the construction itself (Build/GenCorrect.v, PipelineProofs.v). *)
From Kiki Require Import LR.CanonLR1 LR.CanonAgree Emit.Parser Pipeline PipelineProofs.

Section C03_all_grammars.
  Context {P : Type} (kind : P -> nat).
  Variables (ho : hash_order) (digest src : str) (out : gen_out) (text : str) (pt : ptable).
  Hypothesis Hho : perm_hash_order ho.
  Hypothesis Hgen : generate_full ho digest src = Ok (out, text).
  Hypothesis Hpt : ptable_of (go_file out) (go_table out) = Some pt.

  Theorem C03_all_reject_position : forall fuel w tok,
    parse kind pt fuel w = OReject tok ->
    exists consumed rest,
      w = consumed ++ rest /\ tok = hd_error rest /\
      pulls kind pt fuel w = S (length consumed) /\
      (forall x r z, rest = x :: r -> ~ sentence kind pt (consumed ++ x :: z)).
  Proof. exact (emitted_parser_reject_position kind ho digest src out text pt Hho Hgen Hpt). Qed.

  Theorem C03_all_reject_exact :
    (forall r ru, nth_error (pt_rules pt) r = Some ru -> exists ts, wfs kind pt (pr_rhs ru) ts) ->
    (exists t, wf kind pt (PN (pt_start_nt pt)) t) ->
    forall fuel w tok,
      Forall (fun p => kind p < pt_nterm pt) w ->
      parse kind pt fuel w = OReject tok ->
      exists consumed rest,
        w = consumed ++ rest /\ tok = hd_error rest /\
        pulls kind pt fuel w = S (length consumed) /\
        (forall x r z, rest = x :: r -> ~ sentence kind pt (consumed ++ x :: z)) /\
        (exists z, sentence kind pt (consumed ++ z)).
  Proof. exact (emitted_parser_reject_exact kind ho digest src out text pt Hho Hgen Hpt). Qed.
  Theorem C03_all_reject_where_the_canonical_LR1_parser_stops : exists ft,
    forall fuel w tok,
      Forall (fun p => kind p < pt_nterm pt) w ->
      parse kind pt fuel w = OReject tok ->
      exists consumed rest,
        w = consumed ++ rest /\ tok = hd_error rest /\
        (exists g, csteps kind pt ft ([], w) (g, rest)) /\
        (forall g, csteps kind pt ft ([], w) (g, rest) -> ~ can_consume kind pt ft g rest).
  Proof. exact (emitted_parser_rejects_where_canonical_stops kind ho digest src out text pt Hho Hgen Hpt). Qed.
End C03_all_grammars.

(* ---------- the hypotheses of the all-grammar theorems are met by a concrete source ---------- *)

Definition C03_example_src : str := s2l "start L
enum L { Nil Cons(L $X) }
terminal T { $X: () }
".

Definition C03_example_pt : option ptable :=
  Eval vm_compute in
    match generate_full ho_id [] C03_example_src with
    | Ok (out, _) => ptable_of (go_file out) (go_table out)
    | _ => None
    end.

Example C03_all_hypotheses_are_met :
  exists out text pt,
    perm_hash_order ho_id /\
    generate_full ho_id [] C03_example_src = Ok (out, text) /\
    ptable_of (go_file out) (go_table out) = Some pt /\
    (forall r ru, nth_error (pt_rules pt) r = Some ru -> exists ts, wfs (fun k : nat => k) pt (pr_rhs ru) ts) /\
    (exists t, wf (fun k : nat => k) pt (PN (pt_start_nt pt)) t).
Proof.
  destruct (generate_full ho_id [] C03_example_src) as [[out text]| | |] eqn:E; try (vm_compute in E; discriminate).
  assert (Hpt : ptable_of (go_file out) (go_table out) = C03_example_pt).
  { assert (H : match generate_full ho_id [] C03_example_src with Ok (o, _) => ptable_of (go_file o) (go_table o) | _ => None end = C03_example_pt)
      by (vm_compute; reflexivity).
    rewrite E in H. exact H. }
  unfold C03_example_pt in Hpt.
  match type of Hpt with _ = Some ?p => exists out, text, p end.
  split; [split; [intros l; apply Permutation.Permutation_refl|split; intros l; apply Permutation.Permutation_refl]|].
  split; [reflexivity|]. split; [exact Hpt|]. split.
  - intros r ru Hr. destruct r as [|[|r]]; cbn in Hr; try (destruct r; discriminate); injection Hr as <-; cbn [pr_rhs].
    + exists []. constructor.
    + exists [Node 0 []; Leaf 0]. constructor.
      * change (PN 0) with (PN (pr_lhs {| pr_lhs := 0; pr_rhs := []; pr_used := [] |})).
        apply wf_node; [reflexivity|constructor].
      * constructor; [apply (wf_leaf (fun k : nat => k) _ 0)|constructor].
  - exists (Node 0 []). cbn [pt_start_nt].
    change (PN 0) with (PN (pr_lhs {| pr_lhs := 0; pr_rhs := []; pr_used := [] |})).
    apply wf_node; [reflexivity|constructor].
Qed.

(* ---------- why the property is quantified over grammars whose nonterminals are all productive ----------
   The property's quantifier reads "for all accepted grammars in which every nonterminal derives at
   least one token sequence ...; for grammars with unproductive nonterminals the index is the one at
   which a canonical LR(1) parser of the grammar stops".  The restriction cannot be dropped: `B`
   below derives no token sequence; the grammar is accepted (it is LALR(1)); its only sentence is
   `A C`.  On the input `A Bt` the emitted parser shifts both tokens and rejects only at the end of
   the input, although no sentence begins with `A Bt` — and so does every canonical LR(1)/LALR(1)
   parser of this grammar, `A Bt` being a viable prefix.  This is a witness that the hypothesis of
   C03_all_reject_exact is needed, NOT a violation of the property. *)
Definition C03_dead_src : str := s2l "start S
enum S { A(_: $A B) C(_: $A _: $C) }
struct B(_: $Bt B)
terminal Tok { $A: () $Bt: () $C: () }
".

Definition C03_dead_pt : option ptable :=
  Eval vm_compute in
    match generate_full ho_id [] C03_dead_src with
    | Ok (out, _) => ptable_of (go_file out) (go_table out)
    | _ => None
    end.

Theorem C03_productivity_hypothesis_is_necessary :
  exists out text pt,
    perm_hash_order ho_id /\
    generate_full ho_id [] C03_dead_src = Ok (out, text) /\
    ptable_of (go_file out) (go_table out) = Some pt /\
    parse (fun k : nat => k) pt 100 [0; 1] = OReject None /\
    forall z, ~ sentence (fun k : nat => k) pt ([0; 1] ++ z).
Proof.
  destruct (generate_full ho_id [] C03_dead_src) as [[out text]| | |] eqn:E; try (vm_compute in E; discriminate).
  assert (Hpt : ptable_of (go_file out) (go_table out) = C03_dead_pt).
  { assert (H : match generate_full ho_id [] C03_dead_src with Ok (o, _) => ptable_of (go_file o) (go_table o) | _ => None end = C03_dead_pt)
      by (vm_compute; reflexivity).
    rewrite E in H. exact H. }
  unfold C03_dead_pt in Hpt.
  match type of Hpt with _ = Some ?p => exists out, text, p; set (pt := p) in * end.
  split; [split; [intros l; apply Permutation.Permutation_refl|split; intros l; apply Permutation.Permutation_refl]|].
  split; [reflexivity|]. split; [exact Hpt|]. split; [vm_compute; reflexivity|].
  (* B (nonterminal 1) derives nothing *)
  assert (HB : (forall x t, wf (fun k : nat => k) pt x t -> x <> PN 1) /\
               (forall xs ts, wfs (fun k : nat => k) pt xs ts -> ~ In (PN 1) xs)).
  { apply wf_wfs_mind.
    - intros p0. discriminate.
    - intros r ru ch Hr _ IH. destruct r as [|[|[|r]]]; cbn in Hr; try (destruct r; discriminate); injection Hr as <-; cbn [pr_rhs pr_lhs] in *.
      + exfalso. apply IH. right. left. reflexivity.
      + discriminate.
      + exfalso. apply IH. right. left. reflexivity.
    - intros [].
    - intros x xs t ts _ IHx _ IHxs [H|H]; [exact (IHx H)|exact (IHxs H)]. }
  intros z (t & Hwf & Hy). cbn [pt_start_nt pt] in Hwf.
  inversion Hwf as [|r ru ch Hr Hch Hl]; subst.
  destruct r as [|[|[|r]]]; cbn in Hr; try (destruct r; discriminate); injection Hr as <-; cbn [pr_rhs pr_lhs] in *.
  - exfalso. apply (proj2 HB _ _ Hch). right. left. reflexivity.
  - inversion Hch as [|x xs t1 ts1 Ht1 Hts1]; subst. inversion Hts1 as [|x2 xs2 t2 ts2 Ht2 Hts2]; subst. inversion Hts2; subst.
    inversion Ht1; subst. inversion Ht2; subst. cbn in Hy. discriminate.
  - discriminate.
Qed.

Print Assumptions C03_productivity_hypothesis_is_necessary.
Print Assumptions C03_reject_position.
Print Assumptions C03_returns_the_unconsumed_head.
Print Assumptions C03_all_reject_position.
Print Assumptions C03_all_reject_exact.
Print Assumptions C03_all_reject_where_the_canonical_LR1_parser_stops.
