(* C01 — the generated parser accepts exactly the language of the declared grammar.

   What is proved here, for every table T, item annotation ann and FIRST table ft
   that pass the boolean validator (LR/Validate.v), every payload type and every
   token sequence w whose kinds are terminals of the table:
     - the emitted loop never reaches a failing unwrap / index (no panic);
     - Ok(t) is returned only for derivation trees t of the start symbol with yield w;
     - every sentence is accepted, within (size of its tree + 1) loop iterations;
     - acceptance is a function of the token kinds only.
   The check validates, inside Coq, the REAL tables emitted for every sampled
   grammar (hints: the crate's own automaton), so for those grammars the
   conclusions hold for all inputs.

   NOT proved (stated, see DESIGN.md §5 C01):
     C01_all_grammars  : generate_model ho d src = Ok text -> validate (tables of text) = true
                         (builder invariants; lifts the conclusions from every validated
                         grammar to every accepted grammar)
     (termination on every input is proved from a checked certificate, C01_terminates below; the
      check searches and re-checks the certificate for the real tables of every sampled grammar) *)
From Coq Require Import List Arith.
From Kiki Require Import Base.Ord Base.Chars Data LR.Driver LR.Grammar LR.Inv LR.Complete LR.Sound
  LR.Validate LR.Term LR.ValidateProofs LR.Payload.
Import ListNotations.

Section C01.
  Context {P : Type} (kind : P -> nat).
  Variable T : ptable.
  Variable ann : list (list item).
  Variable ft : first_table.
  Hypothesis Hv : validate T ann ft = true.

  Theorem C01_never_panics : forall fuel w site,
    Forall (fun p => kind p < pt_nterm T) w -> parse kind T fuel w <> OPanic site.
  Proof. exact (validated_safe kind T ann ft Hv). Qed.

  Theorem C01_ok_only_for_sentences : forall fuel w t,
    Forall (fun p => kind p < pt_nterm T) w ->
    parse kind T fuel w = OAccept t -> wf kind T (PN (pt_start_nt T)) t /\ yield t = w.
  Proof. exact (validated_sound kind T ann ft Hv). Qed.

  Theorem C01_every_sentence_is_accepted : forall t k,
    wf kind T (PN (pt_start_nt T)) t -> parse kind T (size t + S k) (yield t) = OAccept t.
  Proof. exact (validated_complete kind T ann ft Hv). Qed.

  (* with a termination certificate (potential phi, constant K) accepted by term_check, the loop
     stops on every input within K + phi(start) + |w| (K + max phi + 1) + 1 iterations *)
  Theorem C01_terminates : forall K phi, term_check T ann K phi = true ->
    forall w, Forall (fun p => kind p < pt_nterm T) w ->
    parse kind T (K + ph phi (pt_start T) + length w * (K + M phi + 1) + 1) w <> OOutOfFuel.
  Proof. exact (validated_terminates kind T ann ft Hv). Qed.
End C01.

Theorem C01_payloads_never_influence_acceptance :
  forall {P Q} (kp : P -> nat) (kq : Q -> nat) (T : ptable) fuel (w : list P) (w' : list Q),
    map kp w = map kq w' -> accepts kp T fuel w = accepts kq T fuel w'.
Proof. exact @payloads_never_influence_acceptance. Qed.

Print Assumptions C01_never_panics.
Print Assumptions C01_ok_only_for_sentences.
Print Assumptions C01_every_sentence_is_accepted.
Print Assumptions C01_payloads_never_influence_acceptance.
Print Assumptions C01_terminates.
