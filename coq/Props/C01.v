(* C01 — the generated parser accepts exactly the language of the declared grammar.

   What is proved here, for every table T, item annotation ann and FIRST table ft
   that pass the boolean validator (LR/Validate.v), every payload type and every
   token sequence w whose kinds are terminals of the table:
     - the emitted loop never reaches a failing unwrap / index (no panic);
     - Ok(t) is returned only for derivation trees t of the start symbol with yield w;
     - every sentence is accepted, within (size of its tree + 1) loop iterations;
     - acceptance is a function of the token kinds only.
   The check validates, inside Coq, the REAL tables emitted for every sampled
   grammar (hints: the crate's own automaton), so for those grammars the
   conclusions hold for all inputs.

   AND, without any validator run, for EVERY source text the generator accepts (section
   C01_all_grammars below): the same three conclusions for the tables `generate` builds,
   proved from invariants of the construction (FIRST fixpoint, closure, worklist, LALR merge,
   normalisation, table fill) — PipelineProofs.v, Build/GenCorrect.v.

   NOT proved: termination for every accepted grammar (it is proved from a checked
   certificate, C01_terminates below; the check searches and re-checks the certificate for
   the real tables of every sampled grammar). *)
From Coq Require Import List Arith.
From Kiki Require Import Base.Ord Base.Chars Data LR.Driver LR.Grammar LR.Inv LR.Complete LR.Sound
  LR.Validate LR.Term LR.ValidateProofs LR.Payload.
Import ListNotations.

Section C01.
  Context {P : Type} (kind : P -> nat).
  Variable T : ptable.
  Variable ann : list (list item).
  Variable ft : first_table.
  Hypothesis Hv : validate T ann ft = true.

  Theorem C01_never_panics : forall fuel w site,
    Forall (fun p => kind p < pt_nterm T) w -> parse kind T fuel w <> OPanic site.
  Proof. exact (validated_safe kind T ann ft Hv). Qed.

  Theorem C01_ok_only_for_sentences : forall fuel w t,
    Forall (fun p => kind p < pt_nterm T) w ->
    parse kind T fuel w = OAccept t -> wf kind T (PN (pt_start_nt T)) t /\ yield t = w.
  Proof. exact (validated_sound kind T ann ft Hv). Qed.

  Theorem C01_every_sentence_is_accepted : forall t k,
    wf kind T (PN (pt_start_nt T)) t -> parse kind T (size t + S k) (yield t) = OAccept t.
  Proof. exact (validated_complete kind T ann ft Hv). Qed.

  (* with a termination certificate (potential phi, constant K) accepted by term_check, the loop
     stops on every input within K + phi(start) + |w| (K + max phi + 1) + 1 iterations *)
  Theorem C01_terminates : forall K phi, term_check T ann K phi = true ->
    forall w, Forall (fun p => kind p < pt_nterm T) w ->
    parse kind T (K + ph phi (pt_start T) + length w * (K + M phi + 1) + 1) w <> OOutOfFuel.
  Proof. exact (validated_terminates kind T ann ft Hv). Qed.
End C01.

Theorem C01_payloads_never_influence_acceptance :
  forall {P Q} (kp : P -> nat) (kq : Q -> nat) (T : ptable) fuel (w : list P) (w' : list Q),
    map kp w = map kq w' -> accepts kp T fuel w = accepts kq T fuel w'.
Proof. exact @payloads_never_influence_acceptance. Qed.


(* ---------- for EVERY grammar the generator accepts (Tier B) ----------
   `generate_full ho digest src = Ok (out, text)` is the model of kiki::generate succeeding on
   the source text src under any hash iteration orders ho; pt is the driver's view of the table
   it emitted (Emit/Parser.v ptable_of: rows = chunks of the flat arrays, rule i = reduce
   function i, terminal/nonterminal i = i-th declaration).  No validator run, no hint: the
   invariants are proved of the construction itself (Build/GenCorrect.v, PipelineProofs.v). *)
From Kiki Require Import Emit.Parser Pipeline PipelineProofs.

Section C01_all_grammars.
  Context {P : Type} (kind : P -> nat).
  Variables (ho : hash_order) (digest src : str) (out : gen_out) (text : str) (pt : ptable).
  Hypothesis Hho : perm_hash_order ho.
  Hypothesis Hgen : generate_full ho digest src = Ok (out, text).
  Hypothesis Hpt : ptable_of (go_file out) (go_table out) = Some pt.

  Theorem C01_all_never_panics : forall fuel w site,
    Forall (fun p => kind p < pt_nterm pt) w -> parse kind pt fuel w <> OPanic site.
  Proof. exact (emitted_parser_safe kind ho digest src out text pt Hho Hgen Hpt). Qed.

  Theorem C01_all_ok_only_for_sentences : forall fuel w t,
    Forall (fun p => kind p < pt_nterm pt) w ->
    parse kind pt fuel w = OAccept t -> wf kind pt (PN (pt_start_nt pt)) t /\ yield t = w.
  Proof. exact (emitted_parser_sound kind ho digest src out text pt Hho Hgen Hpt). Qed.

  Theorem C01_all_every_sentence_is_accepted : forall t k,
    wf kind pt (PN (pt_start_nt pt)) t -> parse kind pt (size t + S k) (yield t) = OAccept t.
  Proof. exact (emitted_parser_complete kind ho digest src out text pt Hho Hgen Hpt). Qed.
End C01_all_grammars.

(* the hypothesis Hpt is always satisfiable: an accepted source has driver tables *)
Theorem C01_all_tables_exist : forall ho digest src out text,
  perm_hash_order ho -> generate_full ho digest src = Ok (out, text) ->
  exists pt, ptable_of (go_file out) (go_table out) = Some pt.
Proof.
  intros ho digest src out text Hho Hgen.
  destruct (generate_tables_invariants ho digest src out text Hho Hgen) as (pt & _ & _ & Hp & _). exists pt. exact Hp.
Qed.

Print Assumptions C01_never_panics.
Print Assumptions C01_ok_only_for_sentences.
Print Assumptions C01_every_sentence_is_accepted.
Print Assumptions C01_payloads_never_influence_acceptance.
Print Assumptions C01_terminates.
Print Assumptions C01_all_never_panics.
Print Assumptions C01_all_ok_only_for_sentences.
Print Assumptions C01_all_every_sentence_is_accepted.
Print Assumptions C01_all_tables_exist.
