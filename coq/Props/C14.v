(* C14 — generate is deterministic.

   Every function of the model is a Gallina function, so the model is deterministic by
   construction; the only sources of run-to-run variation in the crate are the two places where
   a hash collection is iterated, which the model takes as an arbitrary reordering parameter.
   Proved: the automaton does not depend on the iteration order of the transition set
   (Oset::from_iter is order-independent: C18).
   NOT proved: C14_table_fill (build_as_is writes distinct cells, so the order of the action/goto
   maps does not matter).  Both orders are exercised by the check (model run with insertion and
   reversed order; crate run repeatedly in-process, on a fresh thread and in child processes). *)
From Coq Require Import List Permutation.
From Kiki Require Import Base.Ord Base.Chars Data Build.Machine Build.DetProofs.

Theorem C14_automaton_independent_of_hash_order : forall ho1 ho2 fu f,
  (forall l, Permutation (ho1 l) l) -> (forall l, Permutation (ho2 l) l) ->
  validated_ast_to_machine ho1 fu f = validated_ast_to_machine ho2 fu f.
Proof. exact machine_order_independent. Qed.

Print Assumptions C14_automaton_independent_of_hash_order.
