(* C14 — generate is deterministic: same text in, byte-identical result out.

   Every function of the model is a Gallina function, so the model is deterministic by
   construction; the only sources of run-to-run variation in the crate are the two places where
   a hash collection is iterated (normalize_machine: the HashSet of transitions is collected into
   an Oset; build_as_is: the two HashMaps of TableBuilder are drained into the flat tables).  The
   model takes both iteration orders as arbitrary reorderings `ho`.
   Proved, for every pair of reorderings that are permutations, every digest and every source text:
     generate_model ho1 d src = Ok text  ->  generate_model ho2 d src = Ok text
     generate_model ho1 d src = Err e    ->  generate_model ho2 d src = Err e
   (Oset::from_iter is order-independent; the table cells written are pairwise distinct because the
   map keys are, so the writes commute.)  That the model lists ALL hash-iteration sites is by
   inspection of the source; the check runs the crate repeatedly in-process, on a fresh thread and
   in child processes (fresh RandomState seeds) and requires identical results. *)
From Coq Require Import List Permutation.
From Kiki Require Import Base.Ord Base.Chars Data Build.Machine Build.DetProofs Build.Table Build.TableSpec
  Pipeline PipelineProofs.

Theorem C14_result_independent_of_hash_order_ok : forall ho1 ho2 digest src text,
  perm_hash_order ho1 -> perm_hash_order ho2 ->
  generate_model ho1 digest src = Ok text -> generate_model ho2 digest src = Ok text.
Proof. exact generate_ok_order_independent. Qed.

Theorem C14_result_independent_of_hash_order_err : forall ho1 ho2 digest src e,
  perm_hash_order ho1 -> perm_hash_order ho2 ->
  generate_model ho1 digest src = Err e -> generate_model ho2 digest src = Err e.
Proof. exact generate_err_order_independent. Qed.

Theorem C14_automaton_independent_of_hash_order : forall ho1 ho2 fu f,
  (forall l, Permutation (ho1 l) l) -> (forall l, Permutation (ho2 l) l) ->
  validated_ast_to_machine ho1 fu f = validated_ast_to_machine ho2 fu f.
Proof. exact machine_order_independent. Qed.

Theorem C14_table_independent_of_hash_order : forall m f ho1 ho2 t,
  perm_ho ho1 -> perm_ho ho2 -> machine_to_table ho1 m f = Ok t -> machine_to_table ho2 m f = Ok t.
Proof. exact table_order_independent_ok. Qed.

(* non-vacuity: the two orders the check runs the model with are permutations *)
Example C14_orders_used_by_the_check : perm_hash_order ho_id /\ perm_hash_order ho_rev.
Proof.
  split; (split; [|split]); intros l; cbn; try reflexivity; apply Permutation_sym, Permutation_rev.
Qed.

Print Assumptions C14_result_independent_of_hash_order_ok.
Print Assumptions C14_result_independent_of_hash_order_err.
Print Assumptions C14_automaton_independent_of_hash_order.
Print Assumptions C14_table_independent_of_hash_order.
