(* C09 — files are accepted exactly per the Kiki grammar; parse errors are exact.

   The tables, kind enumerations and reduce-function shapes are read from
   kiki/src/parser.rs, the rules from kiki/src/parser.kiki, on every run
   (Gen/KikiTables.v); Front/KikiValid.v re-proves by vm_compute that
     - parser.kiki declares the grammar of record (Front/KikiGrammar.v, hand-written),
     - the reduce functions of parser.rs have the shapes of those rules,
     - the tables pass the validator.
   Hence, for EVERY token sequence: the front-end driver never panics, accepts exactly
   the sentences of the grammar of record, and a rejection returns the first token after
   which no valid file can continue (not too late).
   AND not too early (C09_syntax_error_is_neither_late_nor_early; Front/SelfHost.v): Kiki is
   self-hosted, and the tables read from parser.rs on this run ARE the tables the model of
   `generate` produces from the text of parser.kiki (C09_front_end_tables_are_generated_from_parser_kiki,
   by vm_compute on the two regenerated texts).  So the theorems proved for the tables of every
   accepted grammar apply to the front end without validator or hints, and since every symbol
   of the published grammar is productive (checked by vm_compute, LR/Productive.v), what the front
   end has consumed when it reports a syntax error is a prefix of some valid file.  The check's
   Earley oracle over an independently written grammar still decides it per input.
   And for every source text: a syntax error of the front end carries exactly the byte span
   and the text of that token in the source (or the empty span at the end of the source when
   the input ended too early) — C09_parse_error_is_exact, from Lex/Spans.v.
   AND what an accepted file is turned into (C09_front_end_is_the_inverse_of_a_printer,
   Front/Unparse.v): the AST handed to the later stages, written out again by a straightforward
   printer (`unparse`: attributes, keyword, name, fieldsets with `_`/names and symbols, variants,
   payload types with `::`, `<`, `,`, `>`, `()`), is exactly the accepted token sequence with the
   positions erased — nothing is lost, added or reordered between the source and the AST that
   C02, C06, C10, C12 and C13 read the declarations from. *)
From Coq Require Import List Arith.
From Kiki Require Import Base.Ord Base.Chars Data LR.Driver LR.Grammar LR.Inv LR.Complete LR.Sound LR.ErrPos
  LR.Validate LR.Term LR.ValidateProofs Lex.Model Ast.Validate Front.KikiGrammar Front.Parse Front.KikiValid Front.FrontProofs Front.Positions Front.Unparse Emit.Parser Pipeline Front.SelfHost.
From Kiki Require Gen.KikiTables Gen.KikiAnn.
Import ListNotations.

Notation kiki_wf := (wf token_kind kiki_ptable).

Theorem C09_grammar_of_record :
  rules_eqb Gen.KikiTables.src_rules kiki_grammar = true /\ pt_rules kiki_ptable = kiki_grammar.
Proof. exact (conj parser_kiki_is_grammar_of_record eq_refl). Qed.

Theorem C09_front_end_never_panics : forall fuel (w : list token) site,
  parse token_kind kiki_ptable fuel w <> OPanic site.
Proof.
  intros fuel w site.
  exact (validated_safe token_kind kiki_ptable _ _ kiki_tables_valid fuel w site (all_tokens_bounded w)).
Qed.

Theorem C09_accepts_only_sentences : forall fuel (w : list token) t,
  parse token_kind kiki_ptable fuel w = OAccept t -> kiki_wf (PN nFile) t /\ yield t = w.
Proof.
  intros fuel w t.
  exact (validated_sound token_kind kiki_ptable _ _ kiki_tables_valid fuel w t (all_tokens_bounded w)).
Qed.

Theorem C09_accepts_every_sentence : forall t k,
  kiki_wf (PN nFile) t -> parse token_kind kiki_ptable (size t + S k) (yield t) = OAccept t.
Proof. exact (validated_complete token_kind kiki_ptable _ _ kiki_tables_valid). Qed.

Theorem C09_reject_position : forall fuel (w : list token) tok,
  parse token_kind kiki_ptable fuel w = OReject tok ->
  exists consumed rest,
    w = consumed ++ rest /\ tok = hd_error rest /\
    (forall x r z, rest = x :: r -> ~ sentence token_kind kiki_ptable (consumed ++ x :: z)).
Proof.
  intros fuel w tok H.
  pose proof (validate_parts _ _ _ kiki_tables_valid) as (Hfc & _).
  destruct (reject_position token_kind kiki_ptable _ (fseq Gen.KikiAnn.kiki_ft)
              (FirstOK_of_closed token_kind kiki_ptable _ Hfc)
              (validate_Inv _ _ _ kiki_tables_valid) fuel w tok H)
    as (c & r & H1 & H2 & _ & H4).
  exists c, r. auto.
Qed.

(* the front-end loop stops on every token sequence, within a bound linear in its length
   (termination certificate regenerated and re-checked on every run) *)
Theorem C09_front_end_terminates : forall (w : list token),
  parse token_kind kiki_ptable
        (Gen.KikiAnn.kiki_K + ph Gen.KikiAnn.kiki_phi (pt_start kiki_ptable)
         + length w * (Gen.KikiAnn.kiki_K + M Gen.KikiAnn.kiki_phi + 1) + 1) w <> OOutOfFuel.
Proof.
  exact (fun w => validated_terminates token_kind kiki_ptable _ _ kiki_tables_valid _ _ kiki_tables_terminate
                    w (all_tokens_bounded w)).
Qed.

Theorem C09_parse_error_is_exact : forall src tokens fuel e,
  tokenize src = Ok tokens -> front_parse fuel src tokens = Err e ->
  exists consumed rest,
    tokens = consumed ++ rest /\
    (forall x r z, rest = x :: r -> ~ sentence token_kind kiki_ptable (consumed ++ x :: z)) /\
    match rest with
    | [] => e = EParse (blen src) [] (blen src)
    | tk :: _ => exists pre mid post, src = pre ++ mid ++ post /\ token_start tk = Ok (blen pre) /\
                                      token_content_len tk = blen mid /\ e = EParse (blen pre) mid (blen pre + blen mid)%N
    end.
Proof. exact front_parse_error_exact. Qed.

Theorem C09_front_end_is_the_inverse_of_a_printer : forall fuel src toks ast,
  front_parse fuel src toks = Ok ast -> map erase_tok toks = unparse ast.
Proof. exact front_end_inverts_unparse. Qed.

Theorem C09_front_end_tables_are_generated_from_parser_kiki :
  exists out text, generate_full ho_id [] self_src = Ok (out, text) /\ ptable_of (go_file out) (go_table out) = Some kiki_ptable.
Proof. exact front_end_tables_are_generated_from_parser_kiki. Qed.

Theorem C09_syntax_error_is_neither_late_nor_early : forall fuel (w : list token) tok,
  parse token_kind kiki_ptable fuel w = OReject tok ->
  exists consumed rest,
    w = consumed ++ rest /\ tok = hd_error rest /\
    (forall x r z, rest = x :: r -> ~ sentence token_kind kiki_ptable (consumed ++ x :: z)) /\
    (exists z, sentence token_kind kiki_ptable (consumed ++ z)).
Proof. exact front_end_reject_exact. Qed.

Print Assumptions C09_front_end_tables_are_generated_from_parser_kiki.
Print Assumptions C09_syntax_error_is_neither_late_nor_early.
Print Assumptions C09_front_end_is_the_inverse_of_a_printer.
Print Assumptions C09_grammar_of_record.
Print Assumptions C09_front_end_terminates.
Print Assumptions C09_front_end_never_panics.
Print Assumptions C09_accepts_only_sentences.
Print Assumptions C09_accepts_every_sentence.
Print Assumptions C09_reject_position.
Print Assumptions C09_parse_error_is_exact.
