(* C13 — terminal payload types are reproduced faithfully everywhere they are used.

   Proved for the model: the type text stored for every terminal of the validated file is
   type_to_string of the declared type, in declaration order; every use site of the emitter
   prints that stored text (Emit/Emit.v: terminal enum, fields, Node variants, try_into methods).
   AND the round trip (Ast/TypeText.v), for every type expression of the Kiki type syntax whose
   identifiers are identifiers (non-empty runs of [A-Za-z0-9_]), nested to any depth:
     re-tokenising type_to_string ty gives exactly ty_tokens ty —
   the identifiers, `::`, `<`, `,`, `>`, `()` of the declared type in order, so generic
   arguments keep their positions and their nesting (C13_type_text_reads_back_as_the_type).
   The lexer used for reading back is a maximal-munch lexer for Rust type text restricted to
   these token kinds.
   AND the front-end link, closing the chain from the source text (C13_payload_types_read_back_as_the_source_tokens;
   Front/TypeTokens.v, Front/TypeSource.v, Lex/IdentShape.v): for every source the model of generate
   accepts, every payload type text stored in the validated file — the text every use site prints —
   re-tokenises to a CONTIGUOUS SEGMENT OF THE TOKEN SEQUENCE OF THE SOURCE: the tokens the user wrote
   after the terminal's colon (cst_to_ast flattens the left-recursive path and argument lists in
   order; identifier tokens are non-empty runs of identifier characters, so the maximal-munch lexer
   splits the emitted text exactly there).
   The check still re-tokenises every type position of the REAL output and compares it with the
   declaration's token sequence. *)
From Coq Require Import List.
From Kiki Require Import Base.Ord Base.Chars Data Lex.Model Ast.Validate Ast.TypeText Emit.Emit Emit.EmitProofs Front.TypeTokens Pipeline PipelineProofs.

Theorem C13_stored_type_is_the_declared_type : forall d te, validate_terminal_def d = Ok te ->
  map tvr_type (vt_variants te) = map (fun v => type_to_string (tv_type v)) (td_variants d).
Proof. exact terminal_types_are_type_to_string. Qed.

Theorem C13_type_text_reads_back_as_the_type : forall t, ty_ok t -> lex_ty (type_to_string t) = Some (ty_tokens t).
Proof. exact type_text_roundtrip. Qed.

(* the hypothesis is satisfiable by a nested generic type with several arguments *)
Example C13_nested_generic_is_ok :
  let id := fun s => {| id_name := s2l s; id_pos := 0%N |} in
  let t := TyComplex [id "a"; id "B"] [TyComplex [id "Vec"] [TyPath [id "u8"]]; TyUnit; TyPath [id "x"; id "Y_1"]] in
  ty_ok t /\ lex_ty (type_to_string t) = Some (ty_tokens t).
Proof.
  cbv zeta. split; [|vm_compute; reflexivity].
  assert (N : forall s, s <> EmptyString -> forallb ident_char (s2l s) = true -> name_ok (s2l s)).
  { intros s Hs Hb. split; [destruct s; [contradiction|discriminate]|exact Hb]. }
  repeat (first [ apply ok_complex | apply ok_path | apply ok_unit | constructor | discriminate
                | (apply N; [discriminate|vm_compute; reflexivity]) ]).
Qed.

Theorem C13_payload_types_read_back_as_the_source_tokens : forall ho digest src out text,
  generate_full ho digest src = Ok (out, text) ->
  exists toks, tokenize src = Ok toks /\
    forall ty, In ty (map tvr_type (vt_variants (vf_tenum (go_file out)))) ->
      exists pre seg post, toks = pre ++ seg ++ post /\ lex_ty ty = Some (map tytok_of seg).
Proof. exact generate_payload_types_read_back_as_the_source_tokens. Qed.

Print Assumptions C13_payload_types_read_back_as_the_source_tokens.
Print Assumptions C13_stored_type_is_the_declared_type.
Print Assumptions C13_type_text_reads_back_as_the_type.
