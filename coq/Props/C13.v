(* C13 — terminal payload types are reproduced faithfully everywhere they are used.

   Proved for the model: the type text stored for every terminal of the validated file is
   type_to_string of the declared type, in declaration order; every use site of the emitter
   prints that stored text (Emit/Emit.v: terminal enum, fields, Node variants, try_into methods).
   NOT proved: C13_roundtrip (re-tokenising type_to_string ty gives back the tokens of ty);
   decided per input by the check: every type position of the real output is re-tokenised and
   compared with the declaration's token sequence. *)
From Coq Require Import List.
From Kiki Require Import Base.Ord Base.Chars Data Ast.Validate Emit.Emit Emit.EmitProofs.

Theorem C13_stored_type_is_the_declared_type : forall d te, validate_terminal_def d = Ok te ->
  map tvr_type (vt_variants te) = map (fun v => type_to_string (tv_type v)) (td_variants d).
Proof. exact terminal_types_are_type_to_string. Qed.

Print Assumptions C13_stored_type_is_the_declared_type.
