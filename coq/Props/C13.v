(* C13 — terminal payload types are reproduced faithfully everywhere they are used.

   Proved for the model: the type text stored for every terminal of the validated file is
   type_to_string of the declared type, in declaration order; every use site of the emitter
   prints that stored text (Emit/Emit.v: terminal enum, fields, Node variants, try_into methods).
   AND the round trip (Ast/TypeText.v), for every type expression of the Kiki type syntax whose
   identifiers are identifiers (non-empty runs of [A-Za-z0-9_]), nested to any depth:
     re-tokenising type_to_string ty gives exactly ty_tokens ty —
   the identifiers, `::`, `<`, `,`, `>`, `()` of the declared type in order, so generic
   arguments keep their positions and their nesting (C13_type_text_reads_back_as_the_type).
   The lexer used for reading back is a maximal-munch lexer for Rust type text restricted to
   these token kinds.
   NOT proved here: that the declaration's own token sequence in the source is ty_tokens ty
   (front end: cst_to_ast flattens the left-recursive lists in order); decided per input by the
   check: every type position of the real output is re-tokenised and compared with the
   declaration's token sequence. *)
From Coq Require Import List.
From Kiki Require Import Base.Ord Base.Chars Data Ast.Validate Ast.TypeText Emit.Emit Emit.EmitProofs.

Theorem C13_stored_type_is_the_declared_type : forall d te, validate_terminal_def d = Ok te ->
  map tvr_type (vt_variants te) = map (fun v => type_to_string (tv_type v)) (td_variants d).
Proof. exact terminal_types_are_type_to_string. Qed.

Theorem C13_type_text_reads_back_as_the_type : forall t, ty_ok t -> lex_ty (type_to_string t) = Some (ty_tokens t).
Proof. exact type_text_roundtrip. Qed.

(* the hypothesis is satisfiable by a nested generic type with several arguments *)
Example C13_nested_generic_is_ok :
  let id := fun s => {| id_name := s2l s; id_pos := 0%N |} in
  let t := TyComplex [id "a"; id "B"] [TyComplex [id "Vec"] [TyPath [id "u8"]]; TyUnit; TyPath [id "x"; id "Y_1"]] in
  ty_ok t /\ lex_ty (type_to_string t) = Some (ty_tokens t).
Proof.
  cbv zeta. split; [|vm_compute; reflexivity].
  assert (N : forall s, s <> EmptyString -> forallb ident_char (s2l s) = true -> name_ok (s2l s)).
  { intros s Hs Hb. split; [destruct s; [contradiction|discriminate]|exact Hb]. }
  repeat (first [ apply ok_complex | apply ok_path | apply ok_unit | constructor | discriminate
                | (apply N; [discriminate|vm_compute; reflexivity]) ]).
Qed.

Print Assumptions C13_stored_type_is_the_declared_type.
Print Assumptions C13_type_text_reads_back_as_the_type.
