(* C12 — outer attributes are reproduced verbatim on the matching emitted type.

   Proved for the emitter model: the text emitted for a nonterminal is its attributes, each
   followed by a newline, in order, immediately followed by `pub struct|enum <name>`; the
   attribute text is the token's `src` unchanged.  (That the token's `src` is the source slice
   is the tokenizer model's finish_outer_attribute; the validated file keeps the attribute lists:
   C10_validated_file_is_the_input.)  And the attribute text of a token IS the source text at the
   token's byte offset (C12_attribute_text_is_the_source_text, from the lexical specification).
   AND the front-end link (C12_stored_attributes_are_the_tokens_before_the_keyword; Front/AttrSource.v):
   for every declaration of a file the front end accepts, the attributes stored in the AST are
   exactly the attribute tokens that stand immediately before the declaration's keyword in the token
   sequence of the source — all of them, in order; the token before the first one (if any) is not
   an attribute, so no attribute of a declaration is lost or handed to its neighbour.
   AND "nowhere else" (C12_attributes_and_nowhere_else; Emit/AttrsOnly.v): for every source the model of
   `generate` accepts, the emitted text is the text the emitter gives — for the same table — to the
   same declarations WITHOUT their attributes, plus the attribute lines directly in front of the
   terminal enum and directly in front of each nonterminal's definition: take the attributes away
   and exactly those lines disappear, every other byte stays.  (The two template holes concerned occur
   once each: checked by vm_compute on the template regenerated on this run.)
   Byte-exactness and placement on the REAL output are decided by the check's oracle on the emitted text. *)
From Coq Require Import List.
From Kiki Require Import Base.Ord Base.Chars Data Lex.Model Lex.Spec Emit.Emit Emit.EmitProofs Front.Parse Front.AttrSource Build.Machine Emit.AttrsOnly Pipeline PipelineProofs.
From Kiki Require Gen.Template.

Theorem C12_attributes_verbatim_one_per_line : forall attrs,
  attributes_src attrs = concat (map (fun a => at_src a ++ nl) attrs).
Proof. exact attributes_src_concat. Qed.

Theorem C12_attributes_immediately_before_their_type : forall f n s, nonterminal_type_def_src f n = Ok s ->
  exists rest,
    s = attributes_src (match n with NStruct d => sd_attrs d | NEnum e => ed_attrs e end)
          ++ (match n with NStruct _ => S_ "pub struct " | NEnum _ => S_ "pub enum " end) ++ nt_name n ++ rest.
Proof. exact typedef_starts_with_its_attributes. Qed.

Theorem C12_attribute_text_is_the_source_text : forall src toks a, tokenize src = Ok toks ->
  In (TOuterAttribute a) toks -> exists pre post, src = pre ++ at_src a ++ post /\ at_pos a = blen pre.
Proof. exact (fun src toks a H Hin => tokens_are_where_they_say src toks H (TOuterAttribute a) Hin). Qed.

Theorem C12_stored_attributes_are_the_tokens_before_the_keyword : forall src toks fuel ast,
  tokenize src = Ok toks -> front_parse fuel src toks = Ok ast ->
  forall it, In it ast ->
    exists pre seg post, toks = pre ++ seg ++ post /\
      match it with
      | IStart _ => True
      | IStruct s => exists p rest, seg = map TOuterAttribute (sd_attrs s) ++ TStructKw p :: TIdent (sd_name s) :: rest
      | IEnum e => exists p rest, seg = map TOuterAttribute (ed_attrs e) ++ TEnumKw p :: TIdent (ed_name e) :: rest
      | ITerminal d => exists p rest, seg = map TOuterAttribute (td_attrs d) ++ TTerminalKw p :: TIdent (td_name d) :: rest
      end /\
      (pre = [] \/ exists pre' k, pre = pre' ++ [k] /\ forall a, k <> TOuterAttribute a).
Proof. exact front_end_attributes_are_the_source_tokens. Qed.

Theorem C12_attributes_and_nowhere_else : forall ho digest src text,
  generate_model ho digest src = Ok text ->
  exists v t pre mid post bodies,
    front_end src = Ok v /\ length bodies = length (vf_nts v) /\
    text = (pre ++ attributes_src (vt_attrs (vf_tenum v)) ++ mid ++ join (nl ++ nl) (zip_attrs (vf_nts v) bodies) ++ post)%list /\
    table_to_rust (fu_unique (fuels_for 0 v)) Gen.Template.file_template Gen.Template.template_consts t (strip_v v) digest
      = Ok (pre ++ mid ++ join (nl ++ nl) bodies ++ post)%list.
Proof. exact generate_attributes_and_nowhere_else. Qed.
Print Assumptions C12_attributes_and_nowhere_else.
Print Assumptions C12_stored_attributes_are_the_tokens_before_the_keyword.
Print Assumptions C12_attributes_verbatim_one_per_line.
Print Assumptions C12_attribute_text_is_the_source_text.
Print Assumptions C12_attributes_immediately_before_their_type.
