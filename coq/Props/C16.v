(* C16 — whitespace, line endings and comments never influence the result.

   Proved for the tokenizer model: between tokens (state Main) a run of Unicode whitespace
   characters leaves the tokenizer untouched whatever their positions; inside a comment every
   character up to the newline is ignored and the newline returns to Main.
   NOT proved: C16_invariance (two sources with the same token contents give the same result up
   to positions); decided per pair by the check (source vs random re-layout through the crate,
   results compared modulo the hash line / position map). *)
From Coq Require Import List NArith.
From Kiki Require Import Base.Ord Base.Chars Data Lex.Model Lex.Proofs.

Theorem C16_whitespace_run_is_skipped : forall src t (l : list (N * char)) rest,
  tz_state t = LMain -> Forall (fun p => is_whitespace (snd p) = true) l ->
  tokenize_loop src t (l ++ rest) = tokenize_loop src t rest.
Proof. exact whitespace_run_is_skipped. Qed.

Theorem C16_comment_is_skipped : forall src t (l : list (N * char)) j rest,
  tz_state t = LComment -> Forall (fun p => snd p <> 10%N) l ->
  tokenize_loop src t (l ++ (j, 10%N) :: rest) = tokenize_loop src (set_state t LMain) rest.
Proof. exact comment_run_is_skipped. Qed.

Print Assumptions C16_whitespace_run_is_skipped.
Print Assumptions C16_comment_is_skipped.
