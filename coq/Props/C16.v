(* C16 — whitespace, line endings and comments never influence the result.

   Proved for the tokenizer model: between tokens (state Main) a run of Unicode whitespace
   characters leaves the tokenizer untouched whatever their positions; inside a comment every
   character up to the newline is ignored and the newline returns to Main.
   AND, through the lexical specification (Lex/Spec.v; tokenize src = lex 0 src for every string):
     - a whitespace character in front of any text produces no token and only moves what follows
       (C16_whitespace_only_shifts); so does a whole `//` comment with its line break, and a
       comment that runs to the end of the file produces nothing at all (the two C16_comment theorems);
     - the same text further to the right gives the same tokens and the same lexical error, with
       every byte position moved by exactly that distance (C16_positions_only_shift).
   Hence a re-layout (gaps of whitespace and comments changed between lexemes) changes the token
   list only in its positions, and a lexical error remains the same error, shifted.
   AND for the whole pipeline (PositionsProofs.v): if two source texts have the same token contents
   (same kinds, names and attribute texts — whatever lies between the tokens), then `generate`
   gives, for the same digest argument, the same emitted text byte for byte, or the same error
   up to the positions it carries — a syntax error included: its text is the text of the
   offending token (C16_same_tokens_same_result).  The parser, cst_to_ast, validate_ast, the automaton, the
   table and the emitter are each shown to commute with erasing every stored position
   (Front/Positions.v, Ast/Positions.v, Emit/Positions.v).
   AND the exact position map (PosMapProofs.v): the positions the tokens of a source store are
   strictly increasing, so between two layouts of the same tokens there is a function pf taking
   each stored position of the first to that of the second (C16_a_relayout_has_a_position_map);
   and for EVERY such pf, `generate` of the second text is `generate` of the first with pf
   applied to every position the error value carries (name clashes, undefined symbols, case
   errors, the grammar attached to a table conflict), the emitted text being identical — so an
   error carries nothing but stored positions of tokens — while a syntax error is reported at
   the same token, with that token's own span and text in its own source, or at the end of either
   source (C16_errors_move_with_their_tokens).  The model is shown to commute with an arbitrary
   position map stage by stage (Front/PosMap.v, Ast/PosMap.v, Emit/PosMap.v), and the
   automaton construction and the emitter to return no error value (Build/NoErr.v, Emit/NoErr.v).
   The check still compares, per pair, source vs random re-layout through the crate (results
   compared modulo the hash line / the position map). *)
From Coq Require Import List NArith.
From Kiki Require Import Base.Ord Base.Chars Data Lex.Model Lex.Proofs Lex.Spec LR.Driver Front.Parse Emit.Positions Front.Positions Emit.PosMap Front.PosMap Pipeline PositionsProofs PosMapProofs.

Theorem C16_whitespace_run_is_skipped : forall src t (l : list (N * char)) rest,
  tz_state t = LMain -> Forall (fun p => is_whitespace (snd p) = true) l ->
  tokenize_loop src t (l ++ rest) = tokenize_loop src t rest.
Proof. exact whitespace_run_is_skipped. Qed.

Theorem C16_comment_is_skipped : forall src t (l : list (N * char)) j rest,
  tz_state t = LComment -> Forall (fun p => snd p <> 10%N) l ->
  tokenize_loop src t (l ++ (j, 10%N) :: rest) = tokenize_loop src (set_state t LMain) rest.
Proof. exact comment_run_is_skipped. Qed.

Theorem C16_tokenizer_is_lex : forall src, tokenize src = lex 0 src.
Proof. exact tokenize_is_lex. Qed.

Theorem C16_whitespace_only_shifts : forall p c s, is_whitespace c = true -> lex p (c :: s) = lex (p + len_utf8 c) s.
Proof. exact lex_skips_whitespace. Qed.

Theorem C16_comment_only_shifts : forall p body s, forallb (fun x => negb (x =? 10)%N) body = true ->
  lex p (ch "/" :: ch "/" :: body ++ 10%N :: s) = lex (p + 2 + blen body + 1) s.
Proof. exact lex_skips_comment. Qed.

Theorem C16_comment_at_end_of_file : forall p body, forallb (fun x => negb (x =? 10)%N) body = true ->
  lex p (ch "/" :: ch "/" :: body) = Ok [].
Proof. exact lex_comment_at_eof. Qed.

Theorem C16_positions_only_shift : forall p s, lex p s = rshift (map (shift_tok p)) p (lex 0 s).
Proof. exact lex_shift. Qed.

Theorem C16_same_tokens_same_result : forall ho digest src1 src2 toks1 toks2,
  tokenize src1 = Ok toks1 -> tokenize src2 = Ok toks2 ->
  map erase_tok toks1 = map erase_tok toks2 ->
  rerase same (generate_model ho digest src1) = rerase same (generate_model ho digest src2).
Proof. exact same_tokens_same_result_always. Qed.

Theorem C16_a_relayout_has_a_position_map : forall src1 src2 toks1 toks2,
  tokenize src1 = Ok toks1 -> tokenize src2 = Ok toks2 -> map erase_tok toks1 = map erase_tok toks2 ->
  exists pf, toks2 = map (pm_tok pf) toks1.
Proof. exact position_map_exists. Qed.
Theorem C16_errors_move_with_their_tokens : forall pf ho digest src1 src2 toks1,
  tokenize src1 = Ok toks1 -> tokenize src2 = Ok (map (pm_tok pf) toks1) ->
  match parse token_kind kiki_ptable (front_fuel (length toks1)) toks1 with
  | OReject (Some t) =>
      In t toks1 /\
      generate_model ho digest src1 = Err (EParse (tok_pos t) (lexeme t) (tok_pos t + blen (lexeme t))%N) /\
      generate_model ho digest src2 =
        Err (EParse (tok_pos (pm_tok pf t)) (lexeme t) (tok_pos (pm_tok pf t) + blen (lexeme t))%N)
  | OReject None =>
      generate_model ho digest src1 = Err (EParse (blen src1) nil (blen src1)) /\
      generate_model ho digest src2 = Err (EParse (blen src2) nil (blen src2))
  | _ => generate_model ho digest src2 = rpm pf same (generate_model ho digest src1)
  end.
Proof. exact positions_follow_the_tokens. Qed.
(* the hypotheses are satisfiable with a map that is not the identity: a leading space *)
Example C16_position_map_example :
  let src1 := s2l "start A struct A{x:$Y} terminal T{$X:()}" in let src2 := s2l " start  A struct A{x:$Y} terminal T{$X:()}" in
  exists toks1 pf, tokenize src1 = Ok toks1 /\ tokenize src2 = Ok (map (pm_tok pf) toks1) /\
    generate_model ho_id nil src1 = Err (EUndefinedTerminal (s2l "Y") 20) /\ generate_model ho_id nil src2 = Err (EUndefinedTerminal (s2l "Y") 22).
Proof.
  cbv zeta. eexists. exists (fun p => if N.eqb p 0 then 1 else p + 2)%N. split; [vm_compute; reflexivity|]. split; vm_compute; auto.
Qed.
Print Assumptions C16_a_relayout_has_a_position_map.
Print Assumptions C16_errors_move_with_their_tokens.
Print Assumptions C16_whitespace_run_is_skipped.
Print Assumptions C16_same_tokens_same_result.
Print Assumptions C16_tokenizer_is_lex.
Print Assumptions C16_whitespace_only_shifts.
Print Assumptions C16_comment_only_shifts.
Print Assumptions C16_comment_at_end_of_file.
Print Assumptions C16_positions_only_shift.
Print Assumptions C16_comment_is_skipped.
