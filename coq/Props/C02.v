(* C02 — an accepted input yields its faithful derivation tree with the original payloads.

   For validated tables (see C01.v): the value returned on acceptance is a tree t with
     wf (PN start) t   every node `Node r ch` is an instance of production r: its children are
                       derivations of the right-hand-side symbols of r, in declaration order
                       (this is also what the reduce functions' kind checks enforce);
     yield t = w       reading the leaves left to right gives back the input token objects
                       themselves (payloads included), each exactly once, in order.
   The emitted reduce function additionally drops the children at `_` positions and boxes
   nonterminal children when it builds the user's struct/variant; that projection is the
   rendering Emit/Parser.v:node_debug, compared with the compiled parsers on every run. *)
From Coq Require Import List Arith.
From Kiki Require Import Base.Ord Base.Chars Data LR.Driver LR.Grammar LR.Inv LR.Sound LR.Complete
  LR.Validate LR.ValidateProofs.
Import ListNotations.

Section C02.
  Context {P : Type} (kind : P -> nat).
  Variable T : ptable.
  Variable ann : list (list item).
  Variable ft : first_table.
  Hypothesis Hv : validate T ann ft = true.

  Theorem C02_result_is_the_derivation_tree_of_the_input : forall fuel w t,
    Forall (fun p => kind p < pt_nterm T) w ->
    parse kind T fuel w = OAccept t -> wf kind T (PN (pt_start_nt T)) t /\ yield t = w.
  Proof. exact (validated_sound kind T ann ft Hv). Qed.

  (* a node of a derivation tree has one child per right-hand-side symbol, of that symbol *)
  Theorem C02_node_children_match_the_production : forall r ch x,
    wf kind T x (Node r ch) ->
    exists ru, nth_error (pt_rules T) r = Some ru /\ x = PN (pr_lhs ru) /\
               wfs kind T (pr_rhs ru) ch /\ length ch = length (pr_rhs ru).
  Proof. exact (wf_node_inv kind T). Qed.

  (* the tree the parser returns for a sentence is THE tree: derivations are unique *)
  Theorem C02_derivations_are_unique : forall t1 t2,
    wf kind T (PN (pt_start_nt T)) t1 -> wf kind T (PN (pt_start_nt T)) t2 ->
    yield t1 = yield t2 -> t1 = t2.
  Proof. exact (validated_unambiguous kind T ann ft Hv). Qed.
End C02.


(* ---------- for EVERY grammar the generator accepts (Tier B) ----------
   `generate_full ho digest src = Ok (out, text)` is the model of kiki::generate succeeding on
   the source text src under any hash iteration orders ho; pt is the driver's view of the table
   it emitted (Emit/Parser.v ptable_of: rows = chunks of the flat arrays, rule i = reduce
   function i, terminal/nonterminal i = i-th declaration).  No validator run, no hint: the
   invariants are proved of the construction itself (Build/GenCorrect.v, PipelineProofs.v). *)
From Kiki Require Import Emit.Parser Pipeline PipelineProofs.

Section C02_all_grammars.
  Context {P : Type} (kind : P -> nat).
  Variables (ho : hash_order) (digest src : str) (out : gen_out) (text : str) (pt : ptable).
  Hypothesis Hho : perm_hash_order ho.
  Hypothesis Hgen : generate_full ho digest src = Ok (out, text).
  Hypothesis Hpt : ptable_of (go_file out) (go_table out) = Some pt.

  Theorem C02_all_result_is_the_derivation_tree_of_the_input : forall fuel w t,
    Forall (fun p => kind p < pt_nterm pt) w ->
    parse kind pt fuel w = OAccept t -> wf kind pt (PN (pt_start_nt pt)) t /\ yield t = w.
  Proof. exact (emitted_parser_sound kind ho digest src out text pt Hho Hgen Hpt). Qed.

  Theorem C02_all_derivations_are_unique : forall t1 t2,
    wf kind pt (PN (pt_start_nt pt)) t1 -> wf kind pt (PN (pt_start_nt pt)) t2 ->
    yield t1 = yield t2 -> t1 = t2.
  Proof. exact (accepted_grammar_unambiguous kind ho digest src out text pt Hho Hgen Hpt). Qed.
End C02_all_grammars.

Print Assumptions C02_result_is_the_derivation_tree_of_the_input.
Print Assumptions C02_node_children_match_the_production.
Print Assumptions C02_derivations_are_unique.
Print Assumptions C02_all_result_is_the_derivation_tree_of_the_input.
Print Assumptions C02_all_derivations_are_unique.
