(* C17 — emitted tables are the canonical LALR(1) tables of the grammar.

   Proved (Tier A, for any tables/annotation passing the validator; the check runs the validator
   inside Coq on the tables read back from the REAL emitted text of every sampled grammar):
     - every non-error ACTION cell is demanded by an item of the state (shift of the terminal
       after the dot, reduce of a completed item on its lookahead, accept of S' -> S . on end);
     - every item's demand is in the table, every transition of an item is a Shift/GOTO cell.
   Proved (Tier B, for every grammar the generator accepts, no validator run): the same two
   statements for the tables `generate` builds, with the item sets of its own machine as the
   annotation (C17_all_tables_carry_the_invariants); the states of that machine are closed item
   sets with pairwise distinct cores, its transitions are deterministic and complete, and each
   target has exactly the core of the advanced kernel's closure (Build/LoopInv.v BInv,
   Build/MachineSpec.v MInv).
   NOT proved: C17_exact — the lookahead sets are the LEAST solution (they are proved closed
   and justified item by item, which is what correctness of the parser needs).  Decided per grammar by the check: tables read from
   the emitted text compared cell for cell with a brute-force LALR(1) reference up to renumbering. *)
From Coq Require Import List.
From Kiki Require Import Base.Ord Base.Chars Data LR.Driver LR.Grammar LR.Inv LR.Validate LR.ValidateProofs.

Section C17.
  Variable T : ptable.
  Variable ann : list (list item).
  Variable ft : first_table.
  Hypothesis Hv : validate T ann ft = true.

  Theorem C17_every_cell_is_demanded : forall s c a,
    s < length ann -> get_action T s c = Some a -> a <> AErr ->
    exists it, In it (nth s ann []) /\ demands T s it c a.
  Proof. exact (inv_table' T ann (validate_Inv2 T ann ft Hv)). Qed.

  Theorem C17_every_demand_is_in_the_table : Inv T ann (fseq ft).
  Proof. exact (validate_Inv T ann ft Hv). Qed.
End C17.

From Kiki Require Import LR.Viable Emit.Parser Pipeline PipelineProofs.

Theorem C17_all_tables_carry_the_invariants : forall ho digest src out text,
  perm_hash_order ho -> generate_full ho digest src = Ok (out, text) ->
  exists pt (ann : list (list Grammar.item)) (ft : first_table),
    ptable_of (go_file out) (go_table out) = Some pt /\
    Inv pt ann (fseq ft) /\ Inv2 pt ann /\ (forall P (kind : P -> nat), FirstOK kind pt (fseq ft)) /\ Inv3 pt ann.
Proof. exact generate_tables_invariants. Qed.

Print Assumptions C17_every_cell_is_demanded.
Print Assumptions C17_every_demand_is_in_the_table.
Print Assumptions C17_all_tables_carry_the_invariants.
