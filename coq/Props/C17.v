(* C17 — emitted tables are the canonical LALR(1) tables of the grammar.

   Proved (Tier A, for any tables/annotation passing the validator; the check runs the validator
   inside Coq on the tables read back from the REAL emitted text of every sampled grammar):
     - every non-error ACTION cell is demanded by an item of the state (shift of the terminal
       after the dot, reduce of a completed item on its lookahead, accept of S' -> S . on end);
     - every item's demand is in the table, every transition of an item is a Shift/GOTO cell.
   Proved (Tier B, for every grammar the generator accepts, no validator run): the same two
   statements for the tables `generate` builds, with the item sets of its own machine as the
   annotation (C17_all_tables_carry_the_invariants); the states of that machine are closed item
   sets with pairwise distinct cores, its transitions are deterministic and complete, and each
   target has exactly the core of the advanced kernel's closure (Build/LoopInv.v BInv,
   Build/MachineSpec.v MInv).
   AND the lookahead sets are the LEAST solution: an item is in the annotation of a state exactly
   when it is derivable from the start item by the closure rule (lookaheads FIRST(beta a), with the
   FIRST map the generator computed, itself proved closed) and by following transitions
   (C17_lookahead_sets_are_exactly_the_derivable_items; Build/DerProofs.v: derivability is an
   invariant of the worklist construction, merge included).  Distinct states have distinct LR(0)
   cores and each target has the core of the closure of the advanced kernel (BInv, machine_uniq):
   the automaton is the LR(0) automaton of the grammar and the lookaheads are the LALR(1) ones.
   AND that is the textbook definition, at the level of the emitted tables
   (C17_states_are_the_merged_canonical_LR1_sets, LR/CanonLR1.v, LR/FirstExact.v): with I(g) the
   canonical LR(1) item set reached by the viable prefix g, the annotation of state s is exactly
   the union of the I(g) over the g whose path through the ACTION/GOTO tables ends in s, each
   such I(g) has exactly the core of s, and the FIRST table behind the closure rule is exactly
   FIRST / nullable of the grammar (closed AND least).  With C17_all_tables_carry_the_invariants
   (every cell is demanded by an item, every demand is in its cell) the emitted tables are the
   LALR(1) tables: shift/goto on the transitions, reduce exactly on the merged lookahead sets.
   The check still compares the tables read from the emitted text cell for cell with a
   brute-force LALR(1) reference up to renumbering. *)
From Coq Require Import List.
From Kiki Require Import Base.Ord Base.Chars Data LR.Driver LR.Grammar LR.Inv LR.Validate LR.ValidateProofs.

Section C17.
  Variable T : ptable.
  Variable ann : list (list item).
  Variable ft : first_table.
  Hypothesis Hv : validate T ann ft = true.

  Theorem C17_every_cell_is_demanded : forall s c a,
    s < length ann -> get_action T s c = Some a -> a <> AErr ->
    exists it, In it (nth s ann []) /\ demands T s it c a.
  Proof. exact (inv_table' T ann (validate_Inv2 T ann ft Hv)). Qed.

  Theorem C17_every_demand_is_in_the_table : Inv T ann (fseq ft).
  Proof. exact (validate_Inv T ann ft Hv). Qed.
End C17.

From Kiki Require Import LR.Viable LR.Least LR.CanonLR1 LR.FirstExact Emit.Parser Pipeline PipelineProofs.

Theorem C17_all_tables_carry_the_invariants : forall ho digest src out text,
  perm_hash_order ho -> generate_full ho digest src = Ok (out, text) ->
  exists pt (ann : list (list Grammar.item)) (ft : first_table),
    ptable_of (go_file out) (go_table out) = Some pt /\
    Inv pt ann (fseq ft) /\ Inv2 pt ann /\ (forall P (kind : P -> nat), FirstOK kind pt (fseq ft)) /\ Inv3 pt ann /\
    Least pt ann (fseq ft) /\ (first_closed ft (pt_rules pt) = true /\ FirstLeast pt ft).
Proof. exact generate_tables_invariants. Qed.

(* the lookahead sets are LEAST: an item is in a state exactly when it is derivable from the start
   item by the closure rule (lookaheads FIRST(beta a)) and by following transitions *)
Theorem C17_lookahead_sets_are_exactly_the_derivable_items : forall ho digest src out text,
  perm_hash_order ho -> generate_full ho digest src = Ok (out, text) ->
  exists pt (ann : list (list Grammar.item)) (ft : first_table),
    ptable_of (go_file out) (go_table out) = Some pt /\
    forall s it, In_state ann it s <-> lder pt (fseq ft) s it.
Proof. exact emitted_annotation_is_exact. Qed.

Theorem C17_states_are_the_merged_canonical_LR1_sets : forall ho digest src out text,
  perm_hash_order ho -> generate_full ho digest src = Ok (out, text) ->
  exists pt (ann : list (list Grammar.item)) (ft : first_table),
    ptable_of (go_file out) (go_table out) = Some pt /\
    (forall s it, In_state ann it s <-> exists g, path pt g s /\ valid1 pt (fseq ft) g it) /\
    (forall g s, path pt g s -> forall it, In_state ann it s ->
                 exists it', valid1 pt (fseq ft) g it' /\ same_core_item it it') /\
    (forall n t, In t (first_of ft n) <-> pfirst pt n t) /\ (forall n, nullable_of ft n = true <-> pnull pt n).
Proof. exact emitted_states_are_merged_canonical_LR1. Qed.

Print Assumptions C17_every_cell_is_demanded.
Print Assumptions C17_states_are_the_merged_canonical_LR1_sets.
Print Assumptions C17_every_demand_is_in_the_table.
Print Assumptions C17_all_tables_carry_the_invariants.
Print Assumptions C17_lookahead_sets_are_exactly_the_derivable_items.
