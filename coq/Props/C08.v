(* C08 — source text is tokenised exactly per the documented lexical rules.

   Proved for the tokenizer model (single-step facts): punctuation characters are one token each,
   `::` is one token, a stray character / lone slash / newline inside an attribute is a lexical
   error at its own byte index, whitespace and comments are skipped (C16.v).
   AND the full statement, for every string: tokenize src = spec (S |src|) 0 src
   (C08_tokenizer_is_the_lexical_specification), where `spec` (Lex/Spec.v) is the documented
   rules written as a scanner that reads one whole lexeme at a time by maximal munch and knows
   nothing of the tokenizer's states: skip Unicode whitespace and `//` comments; an identifier is
   [A-Za-z_][A-Za-z0-9_]* or the reserved word it spells; `$`+identifier is a terminal identifier
   (a reserved word there is an error reported just past it); `::` before `:`; the single-character
   punctuation; `#[`...up to its closing bracket on the same line with brackets matching in kind;
   anything else is a lexical error at that character, with its byte index.  Equality includes the
   error value and every byte position.
   The crate is tied to the model by the check, which also compares the crate's tokens (through
   the tokenize hook) with the independent Python oracle oracles.lex_spec on every case. *)
From Coq Require Import List NArith.
From Kiki Require Import Base.Ord Base.Chars Data Lex.Model Lex.Proofs Lex.Spec.

Theorem C08_punctuation_is_one_token : forall src t c i mk,
  tz_state t = LMain -> single_char_punctuation c = Some mk -> c <> ch ":" ->
  handle_char src t c i = Ok (push t (mk i)).
Proof. exact punctuation_is_one_token. Qed.

Theorem C08_double_colon_is_one_token : forall src t s i,
  tz_state t = LColon s -> handle_char src t (ch ":") i = Ok (set_state (push t (TDoubleColon s)) LMain).
Proof. exact double_colon_is_one_token. Qed.

Theorem C08_stray_character_is_a_lexical_error : forall src t c i,
  tz_state t = LMain -> is_whitespace c = false -> c <> ch "/" -> is_ascii_alphabetic c = false -> c <> ch "_" ->
  c <> ch "$" -> c <> ch ":" -> c <> ch "#" -> single_char_punctuation c = None ->
  handle_char src t c i = Err (ELex i (Some c)).
Proof. exact stray_character_is_a_lexical_error. Qed.

Theorem C08_lone_slash_is_an_error : forall src t s c i,
  tz_state t = LSlash s -> c <> ch "/" -> handle_char src t c i = Err (ELex s (Some (ch "/"))).
Proof. exact lone_slash_is_an_error. Qed.

Theorem C08_newline_inside_attribute_is_an_error : forall src t s n e i,
  tz_state t = LAttr s n e -> handle_char src t 10%N i = Err (ELex i (Some 10%N)).
Proof. exact newline_inside_attribute_is_an_error. Qed.

Theorem C08_tokenizer_is_the_lexical_specification : forall src, tokenize src = spec (S (length src)) 0 src.
Proof. exact tokenize_is_spec. Qed.

(* the specification on a text that uses every token class and a multi-byte character *)
Example C08_spec_on_a_sample :
  lex 0 (s2l "start A // c
#[d(x)] struct $Ab::_:,") =
  Ok [TStartKw 0; TIdent {| id_name := s2l "A"; id_pos := 6 |};
      TOuterAttribute {| at_src := s2l "#[d(x)]"; at_pos := 13 |}; TStructKw 21;
      TTerminalIdent {| ti_name := s2l "Ab"; ti_dpos := 29 |}; TDoubleColon 31; TUnderscore 33; TColon 34; TComma 35].
Proof. vm_compute. reflexivity. Qed.

(* every token is the text found at its own byte offset in the source *)
Theorem C08_tokens_are_where_they_say : forall src toks, tokenize src = Ok toks ->
  forall t, In t toks -> exists pre post, src = pre ++ lexeme t ++ post /\ tok_pos t = blen pre.
Proof. exact tokens_are_where_they_say. Qed.

Print Assumptions C08_punctuation_is_one_token.
Print Assumptions C08_tokens_are_where_they_say.
Print Assumptions C08_tokenizer_is_the_lexical_specification.
Print Assumptions C08_double_colon_is_one_token.
Print Assumptions C08_stray_character_is_a_lexical_error.
Print Assumptions C08_lone_slash_is_an_error.
Print Assumptions C08_newline_inside_attribute_is_an_error.
