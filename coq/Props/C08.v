(* C08 — source text is tokenised exactly per the documented lexical rules.

   Proved for the tokenizer model (single-step facts): punctuation characters are one token each,
   `::` is one token, a stray character / lone slash / newline inside an attribute is a lexical
   error at its own byte index, whitespace and comments are skipped (C16.v).
   NOT proved: C08_spec (tokenize src = lex_spec src for an independent maximal-munch
   specification); decided per input by the check, which compares the crate's tokens (through the
   tokenize hook) with oracles.lex_spec and with the model on every case. *)
From Coq Require Import List NArith.
From Kiki Require Import Base.Ord Base.Chars Data Lex.Model Lex.Proofs.

Theorem C08_punctuation_is_one_token : forall src t c i mk,
  tz_state t = LMain -> single_char_punctuation c = Some mk -> c <> ch ":" ->
  handle_char src t c i = Ok (push t (mk i)).
Proof. exact punctuation_is_one_token. Qed.

Theorem C08_double_colon_is_one_token : forall src t s i,
  tz_state t = LColon s -> handle_char src t (ch ":") i = Ok (set_state (push t (TDoubleColon s)) LMain).
Proof. exact double_colon_is_one_token. Qed.

Theorem C08_stray_character_is_a_lexical_error : forall src t c i,
  tz_state t = LMain -> is_whitespace c = false -> c <> ch "/" -> is_ascii_alphabetic c = false -> c <> ch "_" ->
  c <> ch "$" -> c <> ch ":" -> c <> ch "#" -> single_char_punctuation c = None ->
  handle_char src t c i = Err (ELex i (Some c)).
Proof. exact stray_character_is_a_lexical_error. Qed.

Theorem C08_lone_slash_is_an_error : forall src t s c i,
  tz_state t = LSlash s -> c <> ch "/" -> handle_char src t c i = Err (ELex s (Some (ch "/"))).
Proof. exact lone_slash_is_an_error. Qed.

Theorem C08_newline_inside_attribute_is_an_error : forall src t s n e i,
  tz_state t = LAttr s n e -> handle_char src t 10%N i = Err (ELex i (Some 10%N)).
Proof. exact newline_inside_attribute_is_an_error. Qed.

Print Assumptions C08_punctuation_is_one_token.
Print Assumptions C08_double_colon_is_one_token.
Print Assumptions C08_stray_character_is_a_lexical_error.
Print Assumptions C08_lone_slash_is_an_error.
Print Assumptions C08_newline_inside_attribute_is_an_error.
