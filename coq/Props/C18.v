(* C18 — the public ordered-set type behaves as a sorted mathematical set.
   This file holds only the property theorems; each is closed by `exact` of a
   lemma proved in Oset/Proofs.v and followed by Print Assumptions. *)
From Coq Require Import List Sorting.Sorted.
From Kiki Require Import Base.Ord Oset.Model Oset.Proofs.

Section C18.
  Context {A : Type} (cmp : cmp_t A) (L : OrdLaws cmp).

  (* after any sequence of from_iter / insert / extend: strictly increasing *)
  Theorem C18_strictly_increasing : forall ops,
    StronglySorted (fun x y => cmp x y = Lt) (run_ops cmp ops).
  Proof. exact (run_ops_sorted cmp L). Qed.

  (* each element it was given, exactly once *)
  Theorem C18_exactly_the_given_elements : forall ops y,
    In y (run_ops cmp ops) <-> In y (given ops).
  Proof. exact (run_ops_in cmp L). Qed.

  Theorem C18_each_once : forall ops, NoDup (run_ops cmp ops).
  Proof. exact (run_ops_nodup cmp L). Qed.

  (* contains answers membership correctly *)
  Theorem C18_contains : forall ops x,
    ocontains cmp x (run_ops cmp ops) = true <-> In x (given ops).
  Proof. exact (run_ops_contains cmp L). Qed.

  (* equality depends only on the element sets *)
  Theorem C18_eq_extensional : forall ops1 ops2,
    oeq cmp (run_ops cmp ops1) (run_ops cmp ops2) = true <->
    (forall x, In x (given ops1) <-> In x (given ops2)).
  Proof. exact (oeq_iff_same_elements cmp L). Qed.

  (* ordering depends only on the element sets *)
  Theorem C18_cmp_extensional : forall ops1 ops1' ops2 ops2',
    (forall x, In x (given ops1) <-> In x (given ops1')) ->
    (forall x, In x (given ops2) <-> In x (given ops2')) ->
    ocmp cmp (run_ops cmp ops1) (run_ops cmp ops2) =
    ocmp cmp (run_ops cmp ops1') (run_ops cmp ops2').
  Proof. exact (ocmp_congruence cmp L). Qed.

  (* from_iter is independent of the order in which the iterator yields (used by C14) *)
  Theorem C18_from_iter_order_independent : forall l1 l2,
    Permutation.Permutation l1 l2 -> ofrom_iter cmp l1 = ofrom_iter cmp l2.
  Proof. exact (ofrom_iter_perm cmp L). Qed.
End C18.

(* non-vacuity: the hypotheses are met by the element orders the harness uses *)
Example C18_laws_N : OrdLaws N_cmp.
Proof. exact OrdProofs.N_cmp_laws. Qed.
Example C18_laws_pair : OrdLaws (pcmp N_cmp N_cmp).
Proof. exact (OrdProofs.pcmp_laws _ _ OrdProofs.N_cmp_laws OrdProofs.N_cmp_laws). Qed.
Example C18_laws_string : OrdLaws (lcmp N_cmp).
Proof. exact (OrdProofs.lcmp_laws _ OrdProofs.N_cmp_laws). Qed.
Example C18_concrete :
  run_ops N_cmp [OFromIter [3;1;3;2]%N; OInsert 0%N; OExtend [5;1;4]%N; OInsert 4%N] = [0;1;2;3;4;5]%N.
Proof. vm_compute. reflexivity. Qed.

Print Assumptions C18_strictly_increasing.
Print Assumptions C18_exactly_the_given_elements.
Print Assumptions C18_each_once.
Print Assumptions C18_contains.
Print Assumptions C18_eq_extensional.
Print Assumptions C18_cmp_extensional.
Print Assumptions C18_from_iter_order_independent.
