
val fst : ('a1 * 'a2) -> 'a1

val snd : ('a1 * 'a2) -> 'a2

val app : 'a1 list -> 'a1 list -> 'a1 list

type comparison =
| Eq
| Lt
| Gt

val fold_left : ('a1 -> 'a2 -> 'a1) -> 'a2 list -> 'a1 -> 'a1

val fold_right : ('a2 -> 'a1 -> 'a1) -> 'a1 -> 'a2 list -> 'a1

type positive =
| XI of positive
| XO of positive
| XH

type n =
| N0
| Npos of positive

module Pos :
 sig
  val compare_cont : comparison -> positive -> positive -> comparison

  val compare : positive -> positive -> comparison
 end

module N :
 sig
  val compare : n -> n -> comparison
 end

type 'a cmp_t = 'a -> 'a -> comparison

val is_eq : comparison -> bool

val cthen : comparison -> comparison -> comparison

val lcmp : 'a1 cmp_t -> 'a1 list -> 'a1 list -> comparison

val pcmp : 'a1 cmp_t -> 'a2 cmp_t -> ('a1 * 'a2) cmp_t

val n_cmp : n cmp_t

type 'a oset = 'a list

val onew : 'a1 oset

val oinsert : 'a1 cmp_t -> 'a1 -> 'a1 oset -> 'a1 oset

val ocontains : 'a1 cmp_t -> 'a1 -> 'a1 oset -> bool

val sinsert : 'a1 cmp_t -> 'a1 -> 'a1 list -> 'a1 list

val isort : 'a1 cmp_t -> 'a1 list -> 'a1 list

val dedup_from : 'a1 cmp_t -> 'a1 -> 'a1 list -> 'a1 list

val dedup : 'a1 cmp_t -> 'a1 list -> 'a1 list

val ofrom_iter : 'a1 cmp_t -> 'a1 list -> 'a1 oset

val oextend : 'a1 cmp_t -> 'a1 oset -> 'a1 list -> 'a1 oset

val oeq : 'a1 cmp_t -> 'a1 oset -> 'a1 oset -> bool

val ocmp : 'a1 cmp_t -> 'a1 oset -> 'a1 oset -> comparison

type 'a op =
| OInsert of 'a
| OExtend of 'a list
| OFromIter of 'a list

val apply_op : 'a1 cmp_t -> 'a1 oset -> 'a1 op -> 'a1 oset

val run_ops : 'a1 cmp_t -> 'a1 op list -> 'a1 oset
