(* PositionsProofs.v — C16 for the whole pipeline: two source texts with the same token contents
   (whatever the whitespace, line breaks and comments between the tokens, hence whatever the
   byte positions) give the same result — the same emitted text for the same digest argument,
   or the same error up to the positions it carries. *)
From Coq Require Import List Arith NArith Lia Bool.
From Kiki Require Import Base.Ord Base.Chars Data DataProofs Lex.Model Lex.NoPanic Lex.Spans Lex.Spec LR.Driver LR.Grammar LR.Inv LR.Sound LR.Validate LR.ValidateProofs LR.Payload Front.Cst2Ast Front.Parse Front.KikiValid
  Ast.Validate Ast.ValidateProofs Build.Machine Build.Table Emit.Emit Emit.Positions Ast.Positions Front.Positions Pipeline.
From Kiki Require Gen.Template Gen.KikiAnn.
Import ListNotations.

Lemma max_rhs_erase rs : max_rhs (map erase_rule rs) = max_rhs rs.
Proof. unfold max_rhs. rewrite map_map. f_equal. apply map_ext. intros r. apply fieldset_len_erase. Qed.

Lemma fuels_for_erase n v : fuels_for n (erase_v v) = fuels_for n v.
Proof.
  unfold fuels_for. rewrite get_rules_erase, max_rhs_erase, map_length. cbn [erase_v vf_tenum vf_nts erase_te vt_variants]. rewrite map_length. reflexivity.
Qed.

(* everything after the parser *)
Definition back (ho : hash_order) (digest : str) (ast : ast_file) : res str :=
  do v <- validate_ast ast;
  do '(m, rt) <- middle ho v;
  do t <- rt;
  table_to_rust (fu_unique (fuels_for 0 v)) Gen.Template.file_template Gen.Template.template_consts t v digest.

Lemma map_idem {A} (f : A -> A) l : (forall x, f (f x) = f x) -> map f (map f l) = map f l.
Proof. intros H. rewrite map_map. apply map_ext, H. Qed.

Lemma erase_iot_idem s : erase_iot (erase_iot s) = erase_iot s.
Proof. destruct s; reflexivity. Qed.
Lemma erase_iou_idem s : erase_iou (erase_iou s) = erase_iou s.
Proof. destruct s; reflexivity. Qed.
Lemma erase_nf_idem x : erase_nf (erase_nf x) = erase_nf x.
Proof. unfold erase_nf. cbn. rewrite erase_iou_idem, erase_iot_idem. reflexivity. Qed.
Lemma erase_tf_idem x : erase_tf (erase_tf x) = erase_tf x.
Proof. destruct x; cbn; rewrite erase_iot_idem; reflexivity. Qed.
Lemma erase_fs_idem fs : erase_fs (erase_fs fs) = erase_fs fs.
Proof. destruct fs; cbn; [reflexivity| |]; f_equal; apply map_idem; [apply erase_nf_idem|apply erase_tf_idem]. Qed.
Lemma erase_attr_idem a : erase_attr (erase_attr a) = erase_attr a.
Proof. reflexivity. Qed.
Lemma erase_ev_idem x : erase_ev (erase_ev x) = erase_ev x.
Proof. unfold erase_ev. cbn. rewrite erase_fs_idem. reflexivity. Qed.
Lemma erase_nt_idem n : erase_nt (erase_nt n) = erase_nt n.
Proof.
  destruct n as [s|e]; cbn; f_equal.
  - unfold erase_sd. cbn. rewrite erase_fs_idem, (map_idem erase_attr _ erase_attr_idem). reflexivity.
  - unfold erase_ed. cbn. rewrite (map_idem erase_attr _ erase_attr_idem), (map_idem erase_ev _ erase_ev_idem). reflexivity.
Qed.
Lemma erase_v_idem v : erase_v (erase_v v) = erase_v v.
Proof.
  unfold erase_v. cbn. f_equal; [|apply map_idem, erase_nt_idem]. unfold erase_te. cbn. rewrite (map_idem erase_attr _ erase_attr_idem). reflexivity.
Qed.

Lemma erase_err_idem e : erase_err (erase_err e) = erase_err e.
Proof.
  destruct e; cbn; try reflexivity; try (rewrite map_map; reflexivity). rewrite erase_v_idem. reflexivity.
Qed.

Lemma rerase_idem {A} (r : res A) : rerase same (rerase same r) = rerase same r.
Proof. destruct r; cbn; try reflexivity. rewrite erase_err_idem. reflexivity. Qed.

Lemma bind_rerase2 {A B} (fa : A -> A) (r : res A) (k k' : A -> res B) :
  (forall a, rerase same (k' (fa a)) = rerase same (k a)) ->
  rerase same (bind (rerase fa r) k') = rerase same (bind r k).
Proof. intros Hk. destruct r; cbn; [apply Hk|rewrite erase_err_idem; reflexivity|reflexivity|reflexivity]. Qed.

Theorem back_erase ho digest ast : rerase same (back ho digest (erase_ast ast)) = rerase same (back ho digest ast).
Proof.
  unfold back. rewrite validate_ast_erase. apply bind_rerase2. intros v.
  unfold middle. rewrite fuels_for_erase, validated_ast_to_machine_erase.
  destruct (validated_ast_to_machine (ho_transitions ho) (fuels_for 0 v) v) as [m| | |]; cbn [bind]; try reflexivity.
  rewrite machine_to_table_erase. apply (bind_rerase2 same). intros t. unfold same. rewrite table_to_rust_erase. reflexivity.
Qed.

Lemma generate_model_unfold ho digest src :
  generate_model ho digest src =
  do tokens <- tokenize src;
  do ast <- front_parse (front_fuel (length tokens)) src tokens;
  back ho digest ast.
Proof.
  unfold generate_model, generate_full, front_end, back.
  destruct (tokenize src) as [tokens| | |]; cbn [bind]; try reflexivity.
  destruct (front_parse _ src tokens) as [ast| | |]; cbn [bind]; try reflexivity.
  destruct (validate_ast ast) as [v| | |]; cbn [bind]; try reflexivity.
  destruct (middle ho v) as [[m rt]| | |]; cbn [bind]; try reflexivity.
  destruct rt as [t| | |]; cbn [bind]; try reflexivity.
  destruct (table_to_rust _ _ _ t v digest); reflexivity.
Qed.

(* ---------- the text of a syntax error is the text of the offending token ---------- *)

Lemma blen_prefix_inj (a : str) : forall b x y, a ++ x = b ++ y -> blen a = blen b -> a = b /\ x = y.
Proof.
  induction a as [|c a IH]; intros b x y H Hl.
  - destruct b as [|d b]; [auto|]. cbn [blen] in Hl. pose proof (len_utf8_pos d). lia.
  - destruct b as [|d b]; [cbn [blen] in Hl; pose proof (len_utf8_pos c); lia|].
    cbn [app] in H. injection H as -> H. cbn [blen] in Hl. destruct (IH b x y H ltac:(lia)) as (-> & ->). auto.
Qed.

Lemma token_start_pos t s : token_start t = Ok s -> s = tok_pos t.
Proof.
  destruct t as [p|i|i|a|p|p|p|p|p|p|p|p|p|p|p|p|p]; cbn; try (intros H; injection H as <-; reflexivity).
  destruct (N.ltb (ti_dpos i) 1); [discriminate|]. intros H; injection H as <-. reflexivity.
Qed.

Lemma content_len_lexeme t : token_content_len t = blen (lexeme t).
Proof. destruct t; reflexivity. Qed.

Lemma lexeme_erase t : lexeme (erase_tok t) = lexeme t.
Proof. destruct t; reflexivity. Qed.

Lemma unexpected_err_text src toks t : tokenize src = Ok toks -> In t toks ->
  exists s e, unexpected_to_err (Some t) src = Ok (EParse s (lexeme t) e).
Proof.
  intros Htok Hin. destruct (tokenize_spans src toks Htok t Hin) as (pre & mid & post & Hsrc & Hs & Hl).
  destruct (tokens_are_where_they_say src toks Htok t Hin) as (pre' & post' & Hsrc' & Hp).
  pose proof (token_start_pos t _ Hs) as Hpos. rewrite Hp in Hpos.
  assert (Hpre : pre = pre' /\ mid ++ post = lexeme t ++ post').
  { apply blen_prefix_inj; [rewrite <- Hsrc, <- Hsrc'; reflexivity|exact Hpos]. }
  destruct Hpre as (-> & Hrest).
  assert (Hmid : mid = lexeme t) by (apply (blen_prefix_inj mid (lexeme t) post post' Hrest); rewrite <- Hl; apply content_len_lexeme).
  subst mid. unfold unexpected_to_err. rewrite Hs. cbn [bind]. rewrite Hl.
  rewrite (slice_app' src pre' (lexeme t) post _ _ Hsrc eq_refl eq_refl). cbn. eauto.
Qed.

(* C16 for syntactically valid files: same token contents, same result *)
Theorem same_tokens_same_result ho digest src1 src2 toks1 toks2 :
  tokenize src1 = Ok toks1 -> tokenize src2 = Ok toks2 ->
  map erase_tok toks1 = map erase_tok toks2 ->
  (forall tok, parse token_kind kiki_ptable (front_fuel (length toks1)) toks1 <> OReject tok) ->
  rerase same (generate_model ho digest src1) = rerase same (generate_model ho digest src2).
Proof.
  intros H1 H2 He Hnr. rewrite !generate_model_unfold, H1, H2. cbn [bind].
  assert (Hlen : length toks2 = length toks1) by (rewrite <- (map_length erase_tok toks2), <- He; apply map_length).
  rewrite Hlen. set (fuel := front_fuel (length toks1)) in *.
  pose proof (parse_erase fuel toks1) as P1. pose proof (parse_erase fuel toks2) as P2. rewrite He in P1. rewrite P1 in P2. clear P1.
  unfold front_parse.
  destruct (parse token_kind kiki_ptable fuel toks1) as [t1|tok1|s1|] eqn:E1;
    destruct (parse token_kind kiki_ptable fuel toks2) as [t2|tok2|s2|] eqn:E2; cbn [omap] in P2; try discriminate.
  - injection P2 as P2. pose proof (a_file_erase t1) as A1. pose proof (a_file_erase t2) as A2. rewrite P2 in A1. rewrite A1 in A2.
    destruct (a_file t1) as [ast1|], (a_file t2) as [ast2|]; cbn [option_map unwrap bind] in *; try discriminate; [|reflexivity].
    injection A2 as A2. rewrite <- (back_erase ho digest ast1), <- (back_erase ho digest ast2), A2. reflexivity.
  - exfalso. apply (Hnr tok1). reflexivity.
  - injection P2 as ->. reflexivity.
  - reflexivity.
Qed.

(* C16, every source: same token contents, same result — syntax errors included *)
Theorem same_tokens_same_result_always ho digest src1 src2 toks1 toks2 :
  tokenize src1 = Ok toks1 -> tokenize src2 = Ok toks2 ->
  map erase_tok toks1 = map erase_tok toks2 ->
  rerase same (generate_model ho digest src1) = rerase same (generate_model ho digest src2).
Proof.
  intros H1 H2 He.
  assert (Hlen : length toks2 = length toks1) by (rewrite <- (map_length erase_tok toks2), <- He; apply map_length).
  set (fuel := front_fuel (length toks1)).
  destruct (parse token_kind kiki_ptable fuel toks1) as [t1|tok1|s1|] eqn:E1;
    try (apply (same_tokens_same_result ho digest src1 src2 toks1 toks2 H1 H2 He); fold fuel; rewrite E1; discriminate).
  rewrite !generate_model_unfold, H1, H2. cbn [bind]. rewrite Hlen. fold fuel.
  pose proof (parse_erase fuel toks1) as P1. pose proof (parse_erase fuel toks2) as P2. rewrite He in P1. rewrite P1 in P2. clear P1.
  rewrite E1 in P2. destruct (parse token_kind kiki_ptable fuel toks2) as [t2|tok2|s2|] eqn:E2; cbn [omap] in P2; try discriminate.
  injection P2 as P2. unfold front_parse. rewrite E1, E2.
  pose proof (validate_Inv2 kiki_ptable Gen.KikiAnn.kiki_ann Gen.KikiAnn.kiki_ft kiki_tables_valid) as Hi2.
  destruct (reject_is_input_token token_kind kiki_ptable _ Hi2 fuel toks1 tok1 (all_tokens_bounded toks1) E1) as (c1 & r1 & Hw1 & Hk1).
  destruct (reject_is_input_token token_kind kiki_ptable _ Hi2 fuel toks2 tok2 (all_tokens_bounded toks2) E2) as (c2 & r2 & Hw2 & Hk2).
  destruct tok1 as [k1|], tok2 as [k2|]; cbn [option_map] in P2; try discriminate.
  - injection P2 as P2.
    assert (Hin1 : In k1 toks1) by (rewrite Hw1; apply in_or_app; right; destruct r1; [discriminate|cbn in Hk1; injection Hk1 as ->; left; reflexivity]).
    assert (Hin2 : In k2 toks2) by (rewrite Hw2; apply in_or_app; right; destruct r2; [discriminate|cbn in Hk2; injection Hk2 as ->; left; reflexivity]).
    destruct (unexpected_err_text src1 toks1 k1 H1 Hin1) as (s1 & e1 & ->). destruct (unexpected_err_text src2 toks2 k2 H2 Hin2) as (s2 & e2 & ->).
    cbn [bind rerase erase_err]. rewrite <- (lexeme_erase k1), <- (lexeme_erase k2), P2. reflexivity.
  - reflexivity.
Qed.
