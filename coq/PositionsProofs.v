(* PositionsProofs.v — C16 for the whole pipeline: two source texts with the same token contents
   (whatever the whitespace, line breaks and comments between the tokens, hence whatever the
   byte positions) give the same result — the same emitted text for the same digest argument,
   or the same error up to the positions it carries. *)
From Coq Require Import List Arith NArith Lia Bool.
From Kiki Require Import Base.Ord Base.Chars Data DataProofs Lex.Model LR.Driver LR.Payload Front.Cst2Ast Front.Parse
  Ast.Validate Ast.ValidateProofs Build.Machine Build.Table Emit.Emit Emit.Positions Ast.Positions Front.Positions Pipeline.
From Kiki Require Gen.Template.
Import ListNotations.

Lemma max_rhs_erase rs : max_rhs (map erase_rule rs) = max_rhs rs.
Proof. unfold max_rhs. rewrite map_map. f_equal. apply map_ext. intros r. apply fieldset_len_erase. Qed.

Lemma fuels_for_erase n v : fuels_for n (erase_v v) = fuels_for n v.
Proof.
  unfold fuels_for. rewrite get_rules_erase, max_rhs_erase, map_length. cbn [erase_v vf_tenum vf_nts erase_te vt_variants]. rewrite map_length. reflexivity.
Qed.

(* everything after the parser *)
Definition back (ho : hash_order) (digest : str) (ast : ast_file) : res str :=
  do v <- validate_ast ast;
  do '(m, rt) <- middle ho v;
  do t <- rt;
  table_to_rust (fu_unique (fuels_for 0 v)) Gen.Template.file_template Gen.Template.template_consts t v digest.

Lemma map_idem {A} (f : A -> A) l : (forall x, f (f x) = f x) -> map f (map f l) = map f l.
Proof. intros H. rewrite map_map. apply map_ext, H. Qed.

Lemma erase_iot_idem s : erase_iot (erase_iot s) = erase_iot s.
Proof. destruct s; reflexivity. Qed.
Lemma erase_iou_idem s : erase_iou (erase_iou s) = erase_iou s.
Proof. destruct s; reflexivity. Qed.
Lemma erase_nf_idem x : erase_nf (erase_nf x) = erase_nf x.
Proof. unfold erase_nf. cbn. rewrite erase_iou_idem, erase_iot_idem. reflexivity. Qed.
Lemma erase_tf_idem x : erase_tf (erase_tf x) = erase_tf x.
Proof. destruct x; cbn; rewrite erase_iot_idem; reflexivity. Qed.
Lemma erase_fs_idem fs : erase_fs (erase_fs fs) = erase_fs fs.
Proof. destruct fs; cbn; [reflexivity| |]; f_equal; apply map_idem; [apply erase_nf_idem|apply erase_tf_idem]. Qed.
Lemma erase_attr_idem a : erase_attr (erase_attr a) = erase_attr a.
Proof. reflexivity. Qed.
Lemma erase_ev_idem x : erase_ev (erase_ev x) = erase_ev x.
Proof. unfold erase_ev. cbn. rewrite erase_fs_idem. reflexivity. Qed.
Lemma erase_nt_idem n : erase_nt (erase_nt n) = erase_nt n.
Proof.
  destruct n as [s|e]; cbn; f_equal.
  - unfold erase_sd. cbn. rewrite erase_fs_idem, (map_idem erase_attr _ erase_attr_idem). reflexivity.
  - unfold erase_ed. cbn. rewrite (map_idem erase_attr _ erase_attr_idem), (map_idem erase_ev _ erase_ev_idem). reflexivity.
Qed.
Lemma erase_v_idem v : erase_v (erase_v v) = erase_v v.
Proof.
  unfold erase_v. cbn. f_equal; [|apply map_idem, erase_nt_idem]. unfold erase_te. cbn. rewrite (map_idem erase_attr _ erase_attr_idem). reflexivity.
Qed.

Lemma erase_err_idem e : erase_err (erase_err e) = erase_err e.
Proof.
  destruct e; cbn; try reflexivity; try (rewrite map_map; reflexivity). rewrite erase_v_idem. reflexivity.
Qed.

Lemma rerase_idem {A} (r : res A) : rerase same (rerase same r) = rerase same r.
Proof. destruct r; cbn; try reflexivity. rewrite erase_err_idem. reflexivity. Qed.

Lemma bind_rerase2 {A B} (fa : A -> A) (r : res A) (k k' : A -> res B) :
  (forall a, rerase same (k' (fa a)) = rerase same (k a)) ->
  rerase same (bind (rerase fa r) k') = rerase same (bind r k).
Proof. intros Hk. destruct r; cbn; [apply Hk|rewrite erase_err_idem; reflexivity|reflexivity|reflexivity]. Qed.

Theorem back_erase ho digest ast : rerase same (back ho digest (erase_ast ast)) = rerase same (back ho digest ast).
Proof.
  unfold back. rewrite validate_ast_erase. apply bind_rerase2. intros v.
  unfold middle. rewrite fuels_for_erase, validated_ast_to_machine_erase.
  destruct (validated_ast_to_machine (ho_transitions ho) (fuels_for 0 v) v) as [m| | |]; cbn [bind]; try reflexivity.
  rewrite machine_to_table_erase. apply (bind_rerase2 same). intros t. unfold same. rewrite table_to_rust_erase. reflexivity.
Qed.

Lemma generate_model_unfold ho digest src :
  generate_model ho digest src =
  do tokens <- tokenize src;
  do ast <- front_parse (front_fuel (length tokens)) src tokens;
  back ho digest ast.
Proof.
  unfold generate_model, generate_full, front_end, back.
  destruct (tokenize src) as [tokens| | |]; cbn [bind]; try reflexivity.
  destruct (front_parse _ src tokens) as [ast| | |]; cbn [bind]; try reflexivity.
  destruct (validate_ast ast) as [v| | |]; cbn [bind]; try reflexivity.
  destruct (middle ho v) as [[m rt]| | |]; cbn [bind]; try reflexivity.
  destruct rt as [t| | |]; cbn [bind]; try reflexivity.
  destruct (table_to_rust _ _ _ t v digest); reflexivity.
Qed.

(* C16 for syntactically valid files: same token contents, same result *)
Theorem same_tokens_same_result ho digest src1 src2 toks1 toks2 :
  tokenize src1 = Ok toks1 -> tokenize src2 = Ok toks2 ->
  map erase_tok toks1 = map erase_tok toks2 ->
  (forall tok, parse token_kind kiki_ptable (front_fuel (length toks1)) toks1 <> OReject tok) ->
  rerase same (generate_model ho digest src1) = rerase same (generate_model ho digest src2).
Proof.
  intros H1 H2 He Hnr. rewrite !generate_model_unfold, H1, H2. cbn [bind].
  assert (Hlen : length toks2 = length toks1) by (rewrite <- (map_length erase_tok toks2), <- He; apply map_length).
  rewrite Hlen. set (fuel := front_fuel (length toks1)) in *.
  pose proof (parse_erase fuel toks1) as P1. pose proof (parse_erase fuel toks2) as P2. rewrite He in P1. rewrite P1 in P2. clear P1.
  unfold front_parse.
  destruct (parse token_kind kiki_ptable fuel toks1) as [t1|tok1|s1|] eqn:E1;
    destruct (parse token_kind kiki_ptable fuel toks2) as [t2|tok2|s2|] eqn:E2; cbn [omap] in P2; try discriminate.
  - injection P2 as P2. pose proof (a_file_erase t1) as A1. pose proof (a_file_erase t2) as A2. rewrite P2 in A1. rewrite A1 in A2.
    destruct (a_file t1) as [ast1|], (a_file t2) as [ast2|]; cbn [option_map unwrap bind] in *; try discriminate; [|reflexivity].
    injection A2 as A2. rewrite <- (back_erase ho digest ast1), <- (back_erase ho digest ast2), A2. reflexivity.
  - exfalso. apply (Hnr tok1). reflexivity.
  - injection P2 as ->. reflexivity.
  - reflexivity.
Qed.
