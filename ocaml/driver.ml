(* Correspondence driver for the extracted model.  Glue only: converts between
   OCaml ints/strings and the extracted nat/N/list types, reads one case per
   line, prints one result line per case.  All formatting of results is done
   by the model (Canon.v). *)
module M = Model

let rec pos_of_int (i : int) : M.positive =
  if i = 1 then M.XH
  else if i land 1 = 0 then M.XO (pos_of_int (i lsr 1))
  else M.XI (pos_of_int (i lsr 1))

let n_of_int (i : int) : M.n = if i = 0 then M.N0 else M.Npos (pos_of_int i)

let rec int_of_pos (p : M.positive) : int =
  match p with M.XH -> 1 | M.XO q -> 2 * int_of_pos q | M.XI q -> 2 * int_of_pos q + 1

let int_of_n (x : M.n) : int = match x with M.N0 -> 0 | M.Npos p -> int_of_pos p

let rec nat_of_int (i : int) : M.nat = if i = 0 then M.O else M.S (nat_of_int (i - 1))

let string_of_str (s : M.n list) : string =
  let b = Buffer.create 256 in
  List.iter (fun c -> Buffer.add_char b (Char.chr (int_of_n c land 255))) s;
  Buffer.contents b

let words (s : string) : string list =
  List.filter (fun w -> w <> "") (String.split_on_char ' ' s)

let cps (ws : string list) : M.n list = List.map (fun w -> n_of_int (int_of_string w)) ws

let iter_lines (path : string) (f : string -> unit) : unit =
  let ic = open_in path in
  (try
     while true do
       f (input_line ic)
     done
   with End_of_file -> ());
  close_in ic

let split_bar (s : string) : string * string =
  match String.index_opt s '|' with
  | Some i -> (String.sub s 0 i, String.sub s (i + 1) (String.length s - i - 1))
  | None -> (s, "")

(* ---- Oset scripts ----
   line:  <ty> <script> | <script>
   ty:    n (numbers), p (pairs a.b), s (strings as hex words, - for empty)
   script: ops separated by ';' :  i:<e>   e:<e>,<e>,..   f:<e>,..   c:<e>  *)

let hex_to_cps (h : string) : M.n list =
  if h = "-" then []
  else
    let len = String.length h / 2 in
    List.init len (fun i -> n_of_int (int_of_string ("0x" ^ String.sub h (2 * i) 2)))

type 'a elt = { parse : string -> 'a; show : 'a -> string; cmp : 'a -> 'a -> M.comparison }

let show_n x = string_of_int (int_of_n x)

let elt_n = { parse = (fun w -> n_of_int (int_of_string w)); show = show_n; cmp = M.n_cmp }

let elt_p =
  { parse =
      (fun w ->
        match String.split_on_char '.' w with
        | [ a; b ] -> (n_of_int (int_of_string a), n_of_int (int_of_string b))
        | _ -> failwith "pair");
    show = (fun (a, b) -> show_n a ^ "." ^ show_n b);
    cmp = M.pcmp M.n_cmp M.n_cmp }

let elt_s =
  { parse = hex_to_cps;
    (* String elements are handled as their UTF-8 byte sequences: Rust orders strings by bytes *)
    show = (fun s -> "x" ^ String.concat "" (List.map (fun b -> Printf.sprintf "%02x" (int_of_n b)) s));
    cmp = M.str_cmp }

let run_script (type a) (e : a elt) (script : string) : a list * string =
  let ops = List.filter (fun w -> w <> "") (String.split_on_char ';' (String.trim script)) in
  let b = Buffer.create 256 in
  let show_set s = "[" ^ String.concat "," (List.map e.show s) ^ "]" in
  let elems (t : string) = List.filter (fun w -> w <> "") (String.split_on_char ',' t) in
  let step (s : a list) (op : string) : a list =
    let kind = op.[0] and arg = String.sub op 2 (String.length op - 2) in
    match kind with
    | 'i' ->
        let s' = M.apply_op e.cmp s (M.OInsert (e.parse arg)) in
        Buffer.add_string b (show_set s' ^ ";");
        s'
    | 'e' ->
        let s' = M.apply_op e.cmp s (M.OExtend (List.map e.parse (elems arg))) in
        Buffer.add_string b (show_set s' ^ ";");
        s'
    | 'f' ->
        let s' = M.apply_op e.cmp s (M.OFromIter (List.map e.parse (elems arg))) in
        Buffer.add_string b (show_set s' ^ ";");
        s'
    | 'c' ->
        Buffer.add_string b ((if M.ocontains e.cmp (e.parse arg) s then "c1" else "c0") ^ ";");
        s
    | _ -> failwith "op"
  in
  let final = List.fold_left step [] ops in
  (final, Buffer.contents b)

let oset_line (type a) (e : a elt) (rest : string) : string =
  let l, r = split_bar rest in
  let s1, o1 = run_script e l in
  let s2, o2 = run_script e r in
  let c = match M.ocmp e.cmp s1 s2 with M.Lt -> "L" | M.Eq -> "E" | M.Gt -> "G" in
  Printf.sprintf "%s|%s|eq=%s,cmp=%s" o1 o2 (if M.oeq e.cmp s1 s2 then "1" else "0") c

let () =
  let cmd = Sys.argv.(1) and path = Sys.argv.(2) in
  let out s = print_string s; print_char '\n' in
  match cmd with
  | "gen" ->
      iter_lines path (fun line ->
          match words line with
          | rev :: digest :: rest ->
              let d = List.init (String.length digest) (fun i -> n_of_int (Char.code digest.[i])) in
              out (string_of_str (M.entry_gen (rev = "1") d (cps rest)))
          | _ -> failwith "gen: bad line")
  | "tok" -> iter_lines path (fun line -> out (string_of_str (M.entry_tok (cps (words line)))))
  | "hash" -> iter_lines path (fun line -> out (string_of_str (M.entry_hash (cps (words line)))))
  | "mt" ->
      iter_lines path (fun line ->
          match words line with
          | rev :: rest -> out (string_of_str (M.entry_mt (rev = "1") (cps rest)))
          | _ -> failwith "mt: bad line")
  | "fm" -> iter_lines path (fun line -> out (string_of_str (M.entry_fm (cps (words line)))))
  | "run" ->
      iter_lines path (fun line ->
          let src, inputs = split_bar line in
          let inputs =
            List.map
              (fun w -> List.map (fun k -> nat_of_int (int_of_string k)) (words w))
              (if String.trim inputs = "" then [] else String.split_on_char ';' inputs)
          in
          let res = M.entry_run (cps (words src)) inputs in
          out (String.concat "\t" (List.map string_of_str res)))
  | "oset" ->
      iter_lines path (fun line ->
          let ty = line.[0] and rest = String.sub line 2 (String.length line - 2) in
          out
            (match ty with
            | 'n' -> oset_line elt_n rest
            | 'p' -> oset_line elt_p rest
            | 's' -> oset_line elt_s rest
            | _ -> failwith "oset: type"))
  | _ -> failwith "unknown command"
